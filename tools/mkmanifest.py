#!/usr/bin/env python3
"""Regenerate MANIFEST.json from the table below (keeps it valid at all times)."""
import json, os, subprocess
ROOT = os.path.dirname(os.path.dirname(os.path.abspath(__file__)))

ALL = [f'C{i:02d}' for i in range(1, 21)]

TB_SEM = 'Trusted base: vlib/ref/sem.py (reference semantics transcribed from the literature / documentation prose, algebraically self-tested) and vlib/ref/syn.py.'
CHECKS = {
 'C01': dict(
    technique='runtime monitoring: every VALID verdict of the real prover on generated/hostile workloads attacked by a bounded countermodel search (frames up to three worlds, identity partitions per world) in an independent reference semantics; culprit rule located by an online shadow-model invariant over the step history',
    text='Exploration: thousands of real proofs per logic (all 57) under rotating option combos, build/step drivers and tie-break order seeds; a VALID verdict is refuted iff a re-verified reference countermodel exists within the search bound.',
    note=TB_SEM + ' Countermodel search is bounded; surviving VALID verdicts are "not refuted within the bound".', design='4/C01'),
 'C02': dict(
    technique='runtime monitoring: the data of every branch.model of every INVALID run is exported into the reference evaluator and every node of the open branch re-evaluated; frame condition, countermodel-hood and the library\'s own is_countermodel_to cross-checked',
    text='Exploration over the same proof workload with is_build_models=True; each open limit-free branch is one monitored object.',
    note=TB_SEM, design='4/C02'),
 'C03': dict(
    technique='runtime monitoring: exhaustive small slice + random propositional arguments built without limits, verdict compared with a complete truth-table decision in the reference semantics; termination monitor on the step history',
    text='Exploration, partly exhaustive (all arguments with <=1 premise and <=1 connective per sentence in all 57 logics in the thorough tier).',
    note=TB_SEM + ' A loop-free proof longer than the monitoring cap is inconclusive, not a violation.', design='4/C03'),
 'C04': dict(
    technique='runtime monitoring: each compound node shape expanded by the real rule (isolated on a real Tableau), resulting branches compared with the reference semantics over ALL small interpretations; frame rules run on all 512 access relations over 3 worlds; in-situ units check the world discipline of every step of real proofs (a cross-world addition needs a modal target and an access node on that branch)',
    text='Exhaustive exploration of a finite space: 57 logics x every node shape x all value assignments / small domains / small frames.',
    note=TB_SEM + ' Components are atoms / monadic predications; exactness for arbitrary components follows from compositionality of the reference.', design='4/C04'),
 'C05': dict(
    technique='runtime monitoring: every set of literal constraints appended node by node to a real branch in every order (and world split), closure compared with reference satisfiability, read-off model value checked',
    text='Exhaustive exploration (thorough tier) of a finite space of literal sets in all 57 logics.',
    note=TB_SEM, design='4/C05'),
 'C07': dict(
    technique='runtime monitoring: exhaustive table enumeration through three call paths against REF-SEM reference tables',
    text='Exhaustive exploration: every cell of every truth-functional table of all 57 logics is produced by the real Model.truth_table / truth_function code and compared with an independent reference; finite space, enumerated completely.',
    note=TB_SEM, design='4/C07'),
 'C09': dict(
    technique='runtime monitoring: the same argument run under all option combos x build/step x tie-break order seeds (hook-controlled hash order) x premise permutations; outcome classes compared, raising configurations reported',
    text='Exploration of the configuration/schedule space per argument; evidence counts distinct step-history signatures actually observed.',
    note='Tie-break orders are enumerated via the PYTABLEAUX_VERIF hook; limit-caused outcomes are excluded as the property says.', design='4/C09'),
 'C12': dict(
    technique='runtime monitoring: write/parse round trips and rendering injectivity over generated sentences, compared through an independent tuple AST; own standard-notation renderer as denotation oracle',
    text='Exploration over seeded random + near-collision families of sentences in every notation/format/dialect/option combination.',
    note='Trusted base: vlib/ref/syn.py, vlib/gen_syn.py (independent renderer over the parse-table alphabet).', design='4/C12'),
 'C13': dict(
    technique='runtime monitoring: exhaustive short strings + random/mutated/pathological inputs; exception-type monitor, sys.monitoring operation-count budget, shadow fresh-parser comparison, well-formedness walk of results',
    text='Exploration (exhaustive for strings of length <= 3 over the alphabet plus foreign characters).',
    note='Non-termination is restated as an operation budget 50(n+1)^2+1000 function entries in parsing.py; wall-clock watchdog firings are inconclusive.', design='4/C13'),
 'C18': dict(
    technique='runtime monitoring: operation sequences on the real containers checked after every operation against a list-without-duplicates model (permitted-outcome oracle) and an icontract class invariant; long-container units (5-10 members) compare every index/slice observation with a plain list',
    text='Exploration: exhaustive short operation sequences (modulo hidden-state equivalence beyond depth 2) + random sequences to depth 60 for qset, linqset, Predicates.',
    note='Trusted base: vlib/ref/seqmodel.py.', design='4/C18'),
}


CHECKS.update({
 'C06': dict(
    technique='runtime monitoring: icontract post-conditions on Branch.append/copy/new_constant/new_world recompute freshness by walking all nodes, over exhaustive short + random operation histories; witness monitor on rule BEFORE/AFTER_APPLY events in real proofs',
    text='Exploration: all histories of <= 4 (thorough 5) operations over a 14-symbol alphabet incl. copies, random histories to depth 40, and first-order/modal proofs in every quantified/modal logic with the contracts riding along.',
    note='Freshness is recomputed from node mappings (REF-SYN constants; world keys); contracts run in record mode inside proofs.', design='4/C06'),
 'C08': dict(
    technique='runtime monitoring: models assembled through the public model API, value_of compared with the reference evaluator on the finished model data; frame closure, classical identity/existence invariants and insertion-order independence checked; mixed-logic units evaluate models of many logics in one process',
    text='Exploration over random small models (worlds <= 3, constants <= 3) x seeded sentences in all 57 logics.',
    note=TB_SEM, design='4/C08'),
 'C10': dict(
    technique='runtime monitoring: metamorphic relatives (conclusion among premises, added premises, injective renamings generated by the reference syntax) run through the real prover; outcome classes compared',
    text='Exploration over the shared proof workload incl. first-order-modal arguments that have no enumeration oracle.',
    note='Limit-caused outcomes are excluded as the property says.', design='4/C10'),
 'C11': dict(
    technique='runtime monitoring: every declared (weaker, stronger) pair read from the live registry; arguments VALID in the weaker logic re-run in the stronger; blame attributed by the reference countermodel search',
    text='Exploration over all ~98 declared pairs (thorough: transitive pairs too).', note=TB_SEM, design='4/C11'),
 'C14': dict(
    technique='runtime monitoring: algebraic laws of ==, hash, ordering and rebuild/copy/pickle round trips over generated items of all nine types and arguments, in worker processes with ITEM_CACHE_SIZE 1/2/7/1000 and observed cache evictions',
    text='Exploration; history independence is exercised by real evictions (counted in the evidence).',
    note='Trusted base: vlib/ref/syn.py structural identity.', design='4/C14'),
 'C15': dict(
    technique='runtime monitoring: substitute/unquantify/negative and the derived attribute sets of generated sentences compared with the reference walker',
    text='Exploration, exhaustive for sentences with <= 1 connective/quantifier over a small vocabulary (thorough: <= 2).',
    note='Trusted base: vlib/ref/syn.py.', design='4/C15'),
 'C16': dict(
    technique='runtime monitoring: event tap on the tableau bus + snapshot comparison after the trunk and after EVERY step() of real proofs; tree and stats recomputed from the branch list after finish',
    text='Exploration: every prefix of the step history of thousands of proofs per logic is one monitored state.',
    note='Observation through public step()/stat()/tree/stats and Tableau events only.', design='4/C16'),
 'C17': dict(
    technique='runtime monitoring: step limits at every cut point, time limits under a virtual clock at every cut point, idempotence snapshots, locked-state mutators, and random call interleavings against a lifecycle automaton',
    text='Exploration; no wall-clock value enters a verdict.', note='Trusted base: the lifecycle automaton in vlib/props/c17.py.', design='4/C17'),
 'C19': dict(
    technique='runtime monitoring: every registered tableau writer configuration (enumerated from the live registry) renders finished tableaux of real proofs twice; exception, determinism and a text-layout oracle (tokens from the writer\'s own LexWriter embedded per branch along the parsed root-to-leaf structure lines)',
    text='Exploration: thousands of finished tableaux per run in all 57 logics (valid, invalid, premature, quit-flag nests, documentation tableaux with ellipsis nodes) x 88 writer configurations.',
    note='Necessary-condition oracle for the text rendering (never stricter than the statement); the unregistered WIP doctree text writer is outside the quantifier.', design='4/C19'),
 'C20': dict(
    technique='runtime monitoring: get_data() of branch models and directly built models compared with value_of(), frames and R; mixed-logic units export models of many logics in one process in seeded orders',
    text='Exploration over thousands of models per logic.', note='Relative to the library evaluator (C08 checks the evaluator).', design='4/C20'),
})

def main():
    hooks = subprocess.run(['git', '-C', '/repo', 'log', '--format=%H %s'], capture_output=True, text=True).stdout.splitlines()
    hook_commits = [l.split()[0] for l in hooks if l.split(' ', 1)[1].startswith('verif hooks')]
    checks = []
    for pid in ALL:
        if pid not in CHECKS:
            continue
        c = CHECKS[pid]
        checks.append(dict(
            property_id=pid,
            quick_cmd=f'./check {pid} --tier quick',
            thorough_cmd=f'./check {pid} --tier thorough',
            evidence_file=f'evidence/{pid}.json',
            replay_cmd_template=f'./check {pid} --replay {{path}}',
            engine='vlib',
            level_claimed=dict(category='exploration', text=c['text'], design_ref=f"DESIGN.md section {c['design']}"),
            level_note=c['note'],
            technique=c['technique']))
    na = [dict(property_id=p, reason='check not built yet in this session (see DESIGN.md section 10 build order); runtime monitoring applies and a check is planned')
          for p in ALL if p not in CHECKS]
    man = dict(
        version=1,
        setup_cmd='./setup.sh',
        hooks=dict(
            guard='PYTABLEAUX_VERIF',
            enable='PYTABLEAUX_VERIF=1 in the environment of every worker process (plus PYTABLEAUX_VERIF_ORDER=<int> tie-break seed, PYTABLEAUX_VERIF_LEXSALT=<int>); the library is imported from /repo working tree, nothing is built',
            baseline_off_cmd='python3 baseline_off.py',
            source_commits=hook_commits,
            add_only=True),
        engines=[dict(name='vlib', path='vlib/', serves_properties=sorted(CHECKS),
                      kind_free_text='runtime monitors (icontract contracts on real classes, event taps, reference-model oracles) driven over generated workloads in fresh worker processes')],
        checks=checks,
        notes='All checks: exit 0 held / exit 1 VIOLATION / exit 2 inconclusive (never on the unchanged tree). VERIF_SEED and VERIF_TIER honoured. VERIF_REPO overrides the tree under test (default /repo).',
        not_applicable=na)
    with open(os.path.join(ROOT, 'MANIFEST.json'), 'w') as f:
        json.dump(man, f, indent=1)
    print('checks:', [c['property_id'] for c in checks], 'not_applicable:', len(na))

if __name__ == '__main__':
    main()
