#!/usr/bin/env python3
"""Regenerate MANIFEST.json from the table below (keeps it valid at all times)."""
import json, os, subprocess
ROOT = os.path.dirname(os.path.dirname(os.path.abspath(__file__)))

ALL = [f'C{i:02d}' for i in range(1, 21)]

CHECKS = {
 'C07': dict(
    technique='runtime monitoring: exhaustive table enumeration through three call paths against REF-SEM reference tables',
    text=('Exhaustive exploration: every cell of every truth-functional table of all 57 logics is produced by the real '
          'Model.truth_table / truth_function code and compared with an independent reference; finite space, enumerated completely.'),
    note='Trusted base: vlib/ref/sem.py (reference tables transcribed from the literature / documentation prose, self-tested algebraically).',
    design='4/C07'),
}

def main():
    hooks = subprocess.run(['git', '-C', '/repo', 'log', '--format=%H %s'], capture_output=True, text=True).stdout.splitlines()
    hook_commits = [l.split()[0] for l in hooks if l.split(' ', 1)[1].startswith('verif hooks')]
    checks = []
    for pid in ALL:
        if pid not in CHECKS:
            continue
        c = CHECKS[pid]
        checks.append(dict(
            property_id=pid,
            quick_cmd=f'./check {pid} --tier quick',
            thorough_cmd=f'./check {pid} --tier thorough',
            evidence_file=f'evidence/{pid}.json',
            replay_cmd_template=f'./check {pid} --replay {{path}}',
            engine='vlib',
            level_claimed=dict(category='exploration', text=c['text'], design_ref=f"DESIGN.md section {c['design']}"),
            level_note=c['note'],
            technique=c['technique']))
    na = [dict(property_id=p, reason='check not built yet in this session (see DESIGN.md section 10 build order); runtime monitoring applies and a check is planned')
          for p in ALL if p not in CHECKS]
    man = dict(
        version=1,
        setup_cmd='./setup.sh',
        hooks=dict(
            guard='PYTABLEAUX_VERIF',
            enable='PYTABLEAUX_VERIF=1 in the environment of every worker process (plus PYTABLEAUX_VERIF_ORDER=<int> tie-break seed, PYTABLEAUX_VERIF_LEXSALT=<int>); the library is imported from /repo working tree, nothing is built',
            baseline_off_cmd='python3 baseline_off.py',
            source_commits=hook_commits,
            add_only=True),
        engines=[dict(name='vlib', path='vlib/', serves_properties=sorted(CHECKS),
                      kind_free_text='runtime monitors (icontract contracts on real classes, event taps, reference-model oracles) driven over generated workloads in fresh worker processes')],
        checks=checks,
        notes='All checks: exit 0 held / exit 1 VIOLATION / exit 2 inconclusive (never on the unchanged tree). VERIF_SEED and VERIF_TIER honoured. VERIF_REPO overrides the tree under test (default /repo).',
        not_applicable=na)
    with open(os.path.join(ROOT, 'MANIFEST.json'), 'w') as f:
        json.dump(man, f, indent=1)
    print('checks:', [c['property_id'] for c in checks], 'not_applicable:', len(na))

if __name__ == '__main__':
    main()
