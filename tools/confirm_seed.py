#!/usr/bin/env python3
"""tools/confirm_seed.py <ID> <patch> <demo> <property> [check ...]

Confirm a seeded change in a scratch worktree (outside /repo and /verif):
 1. the patch applies to /repo HEAD and the library still imports,
 2. the pinned test suite still passes with it (baseline_off.py --repo),
 3. the demonstration exits 1 with the change and 0 on /repo,
 4. run the named checks (default: the property's) against it with VERIF_REPO.
Writes seeded/<ID>/{patch.diff, demo.py, meta.json}. Removes the worktree."""
import json, os, shutil, subprocess, sys, tempfile, time
ROOT = os.path.dirname(os.path.dirname(os.path.abspath(__file__)))

def sh(cmd, **kw):
    return subprocess.run(cmd, capture_output=True, text=True, **kw)

def main():
    sid, patch, demo, prop, *checks = sys.argv[1:]
    checks = checks or [prop]
    needs = os.environ.get('SEED_NEEDS', '')
    base = tempfile.mkdtemp(prefix=f'confirm-{sid}-', dir='/tmp')
    wt = os.path.join(base, 'wt')
    meta = dict(id=sid, property=prop, needs_to_manifest=needs, ran=[])
    try:
        p = sh(['git', '-C', '/repo', 'worktree', 'add', '--detach', wt, 'HEAD'])
        assert p.returncode == 0, p.stderr
        p = sh(['git', '-C', wt, 'apply', patch])
        meta['patch_applies'] = p.returncode == 0
        assert p.returncode == 0, p.stderr
        p = sh(['/venv/bin/python', '-c', 'import pytableaux; from pytableaux.logics import registry; registry.import_all()'],
               env=dict(os.environ, PYTHONPATH=wt), cwd='/tmp')
        meta['imports'] = p.returncode == 0
        d1 = sh(['/venv/bin/python', demo, wt], cwd='/tmp')
        d0 = sh(['/venv/bin/python', demo, '/repo'], cwd='/tmp')
        meta['demo_exit_with_change'] = d1.returncode
        meta['demo_exit_on_repo'] = d0.returncode
        meta['demo_output_with_change'] = (d1.stdout + d1.stderr)[-800:]
        meta['ran'].append(f'/venv/bin/python demo.py <worktree> -> {d1.returncode}; demo.py /repo -> {d0.returncode}')
        if os.environ.get('SKIP_SUITE') != '1':
            t0 = time.time()
            p = sh(['python3', os.path.join(ROOT, 'baseline_off.py'), '--repo', wt])
            meta['suite_passes_with_change'] = p.returncode == 0
            meta['suite_summary'] = p.stdout.strip().splitlines()[-1] if p.stdout.strip() else ''
            meta['ran'].append(f'python3 baseline_off.py --repo <worktree> -> {p.returncode} ({time.time() - t0:.0f}s)')
        meta['checks'] = {}
        for c in checks:
            t0 = time.time()
            p = sh([os.path.join(ROOT, 'check'), c, '--tier', os.environ.get('SEED_TIER', 'quick')], env=dict(os.environ, VERIF_REPO=wt), cwd=ROOT)
            lines = [l.strip() for l in p.stdout.splitlines() if l.startswith(('VIOLATION', 'HELD', 'INCONC', '  kind=', '  message='))]
            meta['checks'][c] = dict(exit=p.returncode, caught=(p.returncode == 1), wall=round(time.time() - t0, 1), lines=[l[:400] for l in lines[:6]])
            meta['ran'].append(f'VERIF_REPO=<worktree> ./check {c} --tier quick -> exit {p.returncode}')
        meta['caught_by'] = [c for c, v in meta['checks'].items() if v['caught']]
    finally:
        sh(['git', '-C', '/repo', 'worktree', 'remove', '--force', wt])
        shutil.rmtree(base, ignore_errors=True)
        sh(['git', '-C', '/repo', 'worktree', 'prune'])
    out = os.path.join(ROOT, 'seeded', sid)
    os.makedirs(out, exist_ok=True)
    for src, name in ((patch, 'patch.diff'), (demo, 'demo.py')):
        dst = os.path.join(out, name)
        if os.path.abspath(src) != os.path.abspath(dst):
            shutil.copy(src, dst)
    json.dump(meta, open(os.path.join(out, 'meta.json'), 'w'), indent=1)
    print(json.dumps({k: meta.get(k) for k in ('id', 'patch_applies', 'imports', 'demo_exit_with_change', 'demo_exit_on_repo',
                                                'suite_passes_with_change', 'suite_summary', 'caught_by')}, indent=1))
    for c, v in meta.get('checks', {}).items():
        print(c, v['exit'], v['lines'][:3])

if __name__ == '__main__':
    main()
