"""C11 - declared logic extensions preserve validity."""
from __future__ import annotations

import random

from .. import gen, lib, proofcheck as pc, runs, shadow, tabs, workload
from ..ref import search, sem as rsem

ID = 'C11'
META = dict(
    level='exploration',
    exhaustive=False,
    rule=('every declared pair (L extends L\': L\' in L.Meta.extension_of; thorough adds the transitive pairs from '
          'registry.get_extends) x arguments in the weaker logic\'s vocabulary (its hostile shapes, rule-directed and random '
          'arguments, plus the <=1-connective exhaustive propositional slice in thorough): whenever L\' reports VALID, L must not '
          'report INVALID with a limit-free open branch, and on the propositional fragment must report VALID. REF-SEARCH '
          'attributes the blame (L\' unsound / L incomplete / declaration wrong). '
          'non-trivial = distinct (pair, argument) that is VALID in the weaker logic with >= 2 steps.'),
    assumptions=['the declared relation is read from Meta.extension_of / registry.get_extends at run time',
                 'monitoring cap of 300/600 steps: capped runs have no verdict and are excluded (counted)'],
    min_events={'quick': {'pairs': 80, 'valid_in_weaker_compared': 1500},
                'thorough': {'pairs': 150, 'valid_in_weaker_compared': 40000}},
    budget=dict(quick=1500, thorough=7200),
    unit_timeout=dict(quick=900, thorough=3000),
)
NARGS = dict(quick=40, thorough=900)


def units(tier, seed):
    return [dict(name=f'ext:{n}', logic=n) for n in lib.STATIC_LOGICS]


def run_unit(unit, out, tier, seed):
    strong = unit['logic']
    if strong not in lib.logic_names():
        out.note(f'logic {strong} no longer registered')
        return
    L = lib.logic(strong)
    direct = [lib.logic(x).Meta.name for x in L.Meta.extension_of]
    weak_list = list(direct)
    if tier == 'thorough':
        for x in lib.registry().get_extends(L):
            if x.Meta.name not in weak_list:
                weak_list.append(x.Meta.name)
    out.cover('logics', strong)
    Ss = rsem.sem(strong)
    for weak in weak_list:
        Sw = rsem.sem(weak)
        out.count('pairs')
        out.cover('pairs', f'{weak}<{strong}')
        rng = random.Random(f'{seed}:{weak}<{strong}')
        desig = tabs.uses_designation(weak)
        cases = list(workload.cases(weak, desig, rng, n_random=NARGS[tier] if weak in direct else NARGS[tier] // 4,
                                    with_examples=(tier == 'thorough' and weak in direct)))
        if tier == 'thorough' and weak in direct:
            one = gen.exh_sentences(1)
            cases += [('exh', 'prop', ((p,), c)) for p in one for c in one] + [('exh', 'prop', ((), c)) for c in one]
        if tier == 'quick':
            # every hostile shape, and a seeded sample of the rest
            host = [c for c in cases if c[1] == 'hostile']
            rest = [c for c in cases if c[1] != 'hostile']
            rng.shuffle(rest)
            cases = host + rest[:50]
        for i, (label, frag, arg) in enumerate(cases):
            cfg, driver, order = workload.config_cycle(i, seed)
            check(weak, strong, Sw, Ss, arg, cfg, driver, order, out, tier, rng, label)
            if i % 60 == 7:
                out.sample(dict(weaker=weak, stronger=strong, argument=gen.show_arg(arg)), limit=2)


def check(weak, strong, Sw, Ss, arg, cfg, driver, order, out, tier, rng, label=''):
    rw = pc.run_cfg(weak, arg, cfg, driver, order, tier)
    out.count('runs')
    out.case((weak, strong, gen.arg_key(arg)), nontrivial=(rw.outcome == 'VALID' and rw.steps >= 2))
    if rw.outcome != 'VALID':
        return
    rs = pc.run_cfg(strong, arg, cfg, driver, order, tier)
    out.count('runs')
    out.count('valid_in_weaker_compared')
    prop = search.is_propositional_for(Sw, list(arg[0]) + [arg[1]]) and search.is_propositional_for(Ss, list(arg[0]) + [arg[1]])
    bad = rs.outcome == 'INVALID' or (prop and rs.outcome not in ('VALID',) and rs.outcome != 'ERROR' and not rs.tab.premature)
    if rs.outcome == 'ERROR':
        out.count('errored_runs_left_to_C09')
        return
    if rs.outcome == 'NONE':
        out.count('runs_without_verdict')
    if not bad:
        return
    # a transitive pair: find the DIRECT declaration along the declared chain at which validity is lost,
    # and report that pair (so one wrong declaration is one mechanism, however many logics sit above it)
    via = None
    direct = [lib.logic(x).Meta.name for x in lib.logic(strong).Meta.extension_of]
    if weak not in direct:
        path = declared_path(strong, weak)
        if path:
            prev_name, prev_out = weak, 'VALID'
            for nxt in reversed(path[:-1]):           # from just above `weak` up to `strong`
                o = pc.run_cfg(nxt, arg, cfg, driver, order, tier).outcome
                out.count('runs')
                if prev_out == 'VALID' and o == 'INVALID':
                    via = (prev_name, nxt)
                    break
                if o == 'VALID':
                    prev_name, prev_out = nxt, o
            if via:
                weak, strong = via
                Sw, Ss = rsem.sem(weak), rsem.sem(strong)
    # blame
    blame = 'declaration-or-undetermined'
    detail = {}
    cw = search.find_countermodel(Sw, arg[0], arg[1], rng=rng, **dict(pc.SEARCH[tier], max_worlds=3))
    if cw.model is not None:
        c = shadow.culprit_of_valid(weak, arg, cw.model, dict(cfg, max_steps=pc.CAP[tier], order=order))
        blame = 'weaker-logic-unsound'
        detail = dict(culprit_rule=(c or {}).get('rule'), weaker_family=Sw.base_name)
    else:
        # the stronger logic's own countermodel (read off its open branch) is also an interpretation of the weaker
        # logic; if it refutes the argument there too, the weaker logic's 'valid' is what is wrong
        tm = transplanted_countermodel(strong, weak, Ss, Sw, arg, cfg, driver, order, tier)
        if tm is not None:
            c = shadow.culprit_of_valid(weak, arg, tm, dict(cfg, max_steps=pc.CAP[tier], order=order))
            blame = 'weaker-logic-unsound'
            detail = dict(culprit_rule=(c or {}).get('rule'), weaker_family=Sw.base_name)
    if blame == 'declaration-or-undetermined':
        cs = search.find_countermodel(Ss, arg[0], arg[1], rng=rng, **dict(pc.SEARCH[tier], max_worlds=3))
        if cs.model is None and cs.complete:
            blame = 'stronger-logic-incomplete'
        elif cs.model is not None:
            blame = 'declaration-wrong' if cw.complete else 'declaration-wrong-or-weaker-unsound-beyond-bound'
    out.violation('extension-loses-validity',
                  dict(weaker=weak, stronger=strong, label=label, argument=gen.arg_to_json(arg), **pc.cfg_json(cfg, driver, order),
                       stronger_outcome=rs.outcome, located_on_direct_pair=bool(via)),
                  dict(clause='valid-in-weaker-not-in-stronger', weaker=weak, stronger=strong, blame=blame, **detail),
                  f'{gen.show_arg(arg)} is VALID in {weak} but {rs.outcome} in {strong} (declared: {strong} extends {weak}); blame={blame} {detail}',
                  size=gen.arg_size(arg), env=pc.env_for(order))


def transplanted_countermodel(strong, weak, Ss, Sw, arg, cfg, driver, order, tier):
    """A countermodel of ``arg`` in the weaker logic obtained from the stronger logic's open-branch models: every value the
    evaluation can consult is copied explicitly (the two logics' unassigned values differ). None if there is none."""
    from .. import runs
    from ..ref.sem import Interp
    try:
        r = pc.run_cfg(strong, arg, cfg, driver, order, tier, models=True)
        if r.outcome != 'INVALID':
            return None
        sentences = list(arg[0]) + [arg[1]]
        for b in r.tab.open:
            if runs.has_quit_flag(b) or b.model is None:
                continue
            I = runs.export_model(b.model, Ss)
            if not I.is_countermodel(arg[0], arg[1], 0):
                continue
            atoms, opaques, preds, consts, has_q, has_m = search._atoms_and_opaques(Sw, sentences)
            dom = list(I.domain) or sorted(consts)
            A, O, P = {}, {}, {}
            for w in I.worlds:
                for a in atoms:
                    A[(w, a)] = I.value(a, w)
                for o in opaques:
                    O[(w, o)] = I.value(o, w)
                for pr, ps in search.ground_predications(sentences, Sw, dom):
                    P[(w, pr, ps)] = I.value(('P', pr, ps), w)
            if any(v not in Sw.values for v in list(A.values()) + list(O.values()) + list(P.values())):
                continue
            J = Interp(Sw, worlds=I.worlds, R=I.R, domain=dom, atoms=A, preds=P, opaques=O)
            if Sw.modal and not Sw.frame_ok(J.R, J.worlds):
                continue
            if J.is_countermodel(arg[0], arg[1], 0):
                return J
    except Exception:
        return None
    return None


def declared_path(strong, weak):
    "A chain strong > ... > weak of direct extension_of declarations (BFS), as a list of names."
    from collections import deque
    q = deque([[strong]])
    seen = {strong}
    while q:
        path = q.popleft()
        for x in lib.logic(path[-1]).Meta.extension_of:
            n = lib.logic(x).Meta.name
            if n == weak:
                return path + [n]
            if n not in seen:
                seen.add(n)
                q.append(path + [n])
    return None


def replay(wit):
    from ..worker import Out
    out = Out()
    c = wit['case']
    check(c['weaker'], c['stronger'], rsem.sem(c['weaker']), rsem.sem(c['stronger']), gen.arg_from_json(c['argument']),
          c['cfg'], c['driver'], c['order'], out, 'thorough', random.Random(0))
    return dict(violates=bool(out.violations), detail=[v['message'][:500] for v in out.violations])
