"""C16 - a tableau's bookkeeping is consistent at every step."""
from __future__ import annotations

import random

from .. import gen, lib, proofcheck as pc, runs, tabs, trace, workload
from ..ref import sem as rsem

ID = 'C16'
META = dict(
    level='exploration',
    exhaustive=False,
    rule=('the shared proof workload (hostile, named examples, rule-directed, random; all fragments) driven by a step() loop '
          'on a tableau carrying an event tap; after the trunk and after EVERY step the public observables are compared with '
          'the previous snapshot and the event log (trunk content, branches only grow, closed branches frozen, open view = '
          'unclosed branches in order, new branches extend their parent, one history entry per step = the returned entry, '
          'step numbers of additions/ticks/closures monotone and not in the future); after finish the tree (leaves <-> branches, '
          'node paths, width, distinct nodes, structure/descendant node counts, depth, left/right, has_open/has_closed) and stats '
          'are compared with a recomputation from the branch list; event counts are reconciled with the final state. '
          'non-trivial = distinct (logic, argument) whose proof has >= 2 steps and >= 2 branches.'),
    assumptions=['observation is through the public step()/stat()/tree/stats API and the tableau event bus only'],
    min_events={'quick': {'step_checks': 40000, 'finished_checks': 4000, 'logics': 52},
                'thorough': {'step_checks': 400000, 'finished_checks': 40000, 'logics': 52}},
    budget=dict(quick=1500, thorough=7200),
    unit_timeout=dict(quick=900, thorough=3000),
)

NRANDOM = dict(quick=40, thorough=600)
SPLIT = dict(quick=1, thorough=4)


def units(tier, seed):
    return [dict(name=f'steps:{n}:{k}', logic=n, part=k, parts=SPLIT[tier])
            for n in lib.STATIC_LOGICS for k in range(SPLIT[tier])]


def run_unit(unit, out, tier, seed):
    name = unit['logic']
    if name not in lib.logic_names():
        out.note(f'logic {name} no longer registered')
        return
    S = rsem.sem(name)
    desig = tabs.uses_designation(name)
    if unit['part'] == 0:
        out.count('logics')
    out.cover('logics', name)
    rng = random.Random(f'{seed}:{name}')
    allcases = list(workload.cases(name, desig, rng, n_random=NRANDOM[tier], with_examples=(tier == 'thorough')))
    mine = allcases[unit['part']::unit['parts']]
    for i, (label, frag, arg) in enumerate(mine):
        cfg, _, order = workload.config_cycle(i * 3, seed)
        check(name, S, desig, arg, cfg, order, out, tier, label)
        if i % 40 == 4:
            out.sample(dict(logic=name, label=label, argument=gen.show_arg(arg)), limit=3)


def check(name, S, desig, arg, cfg, order, out, tier, label='', max_steps=None):
    state = {}

    def tap(tab):
        state['tap'] = t = trace.Tap(tab)
        from pytableaux.proof import Tableau
        tab.on(Tableau.Events.AFTER_TRUNK_BUILD, lambda _t: (t.check_trunk(arg, desig, tabs.world0(name)),
                                                              t.check_step(None, 0, 0)))
        state['hist'] = 0
        state['applies'] = 0

    def after_step(tab, entry):
        t = state['tap']
        t.check_step(entry, state['hist'], state['applies'])
        state['hist'] = len(tab.history)
        state['applies'] = t.rule_applies
        out.count('step_checks')

    r = runs.run(name, arg, driver='step', order=order, max_steps=max_steps or pc.CAP[tier], tap=tap,
                 after_step=after_step, **cfg)
    out.count('runs')
    t = state.get('tap')
    if r.outcome == 'ERROR' or t is None:
        out.count('errored_runs_left_to_C09')
        out.case((name, gen.arg_key(arg)), nontrivial=False)
        return
    t.check_events()
    t.check_ticks()
    if r.tab.finished and r.tab.tree is not None:
        t.check_finished()
        out.count('finished_checks')
    out.count('events_logged', len(t.log))
    out.case((name, gen.arg_key(arg)), nontrivial=(r.steps >= 2 and len(r.tab) >= 2))
    seen = set()
    for clause, detail in t.problems:
        if clause in seen:
            continue
        seen.add(clause)
        out.violation('bookkeeping', dict(logic=name, label=label, argument=gen.arg_to_json(arg), cfg=cfg, order=order,
                                          detail=detail, steps=r.steps, branches=len(r.tab)),
                      dict(clause=clause),
                      f'{name}: {gen.show_arg(arg)}: {clause} {detail}', size=gen.arg_size(arg),
                      env=pc.env_for(order))


def replay(wit):
    from ..worker import Out
    out = Out()
    c = wit['case']
    S = rsem.sem(c['logic'])
    check(c['logic'], S, tabs.uses_designation(c['logic']), gen.arg_from_json(c['argument']), c['cfg'], c['order'], out,
          'thorough', c.get('label', ''))
    same = [v for v in out.violations if v['diagnosis'] == wit['diagnosis']]
    return dict(violates=bool(same), detail=[v['message'][:500] for v in same])
