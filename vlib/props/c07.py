"""C07 - each logic's truth tables are the documented ones (exhaustive)."""
from __future__ import annotations

from itertools import product

from ..ref import sem as rsem, syn
from .. import lib

ID = 'C07'
META = dict(
    level='exploration',
    exhaustive=True,
    rule=('exhaustive: every registered logic x 8 truth-functional operators x every value tuple, through '
          'Model.truth_table(), an instance truth_function(oper, *vals), the per-operator method and value_of() of a finished model whose atoms carry the values; plus value set, '
          'designated set, unassigned value, definitional identities and base-logic equality of modal extensions. '
          'A case = (logic, operator, tuple); non-trivial = every cell (each is a distinct table entry).'),
    assumptions=['REF-SEM tables (vlib/ref/sem.py) are the documented/literature tables',
                 'the registry lists every logic (compared with the static list of 57)'],
    min_events={'any': {'cells_checked': 1500, 'identities_checked': 1000, 'logics': 52}},
    budget=dict(quick=1500, thorough=7200),
)

IDENTITIES = {
    'MaterialConditional = Disjunction(Negation a, b)':
        lambda f, a, b: (f('MaterialConditional', a, b), f('Disjunction', f('Negation', a), b)),
    'MaterialBiconditional = Conjunction(MC(a,b), MC(b,a))':
        lambda f, a, b: (f('MaterialBiconditional', a, b),
                         f('Conjunction', f('MaterialConditional', a, b), f('MaterialConditional', b, a))),
    'Biconditional = Conjunction(C(a,b), C(b,a))':
        lambda f, a, b: (f('Biconditional', a, b),
                         f('Conjunction', f('Conditional', a, b), f('Conditional', b, a))),
    'Assertion = identity':
        lambda f, a, b: (f('Assertion', a), a),
    'Conditional = MaterialConditional':
        lambda f, a, b: (f('Conditional', a, b), f('MaterialConditional', a, b)),
    'Conditional = MaterialConditional(Assertion a, Assertion b)':
        lambda f, a, b: (f('Conditional', a, b), f('MaterialConditional', f('Assertion', a), f('Assertion', b))),
}


def units(tier, seed):
    names = lib.STATIC_LOGICS
    return [dict(name=f'tables:{i}', logics=names[i::8]) for i in range(8)] + [dict(name='registry', logics=[])]


def run_unit(unit, out, tier, seed):
    from pytableaux.lang import Operator
    if unit['name'] == 'registry':
        live = set(lib.logic_names())
        out.case(('registry',))
        out.count('registry_checked')
        if live != set(lib.STATIC_LOGICS):
            out.note(f'registry differs from static list: +{sorted(live - set(lib.STATIC_LOGICS))} '
                     f'-{sorted(set(lib.STATIC_LOGICS) - live)}')
            for name in sorted(live - set(lib.STATIC_LOGICS)):
                try:
                    rsem.sem(name)
                except KeyError:
                    out.violation('no-reference', dict(logic=name), dict(diag='logic without reference semantics'),
                                  f'logic {name} is registered but REF-SEM does not know it')
        return
    for name in unit['logics']:
        L = lib.logic(name)
        S = rsem.sem(name)
        M = L.Model
        out.count('logics')
        out.cover('logics', name)
        # value set, designated, unassigned
        vals = tuple(str(v) for v in L.Meta.values)
        out.case((name, 'values'))
        if vals != S.values:
            out.violation('values', dict(logic=name), dict(diag='value-set', logic=name),
                          f'{name}: values {vals} != reference {S.values}')
            continue
        des = frozenset(str(v) for v in L.Meta.designated_values)
        out.case((name, 'designated'))
        if des != S.designated:
            out.violation('designated', dict(logic=name), dict(diag='designated-set', logic=name),
                          f'{name}: designated {sorted(des)} != reference {sorted(S.designated)}')
        out.case((name, 'unassigned'))
        if str(L.Meta.unassigned_value) != S.unassigned:
            out.violation('unassigned', dict(logic=name), dict(diag='unassigned-value', logic=name),
                          f'{name}: unassigned {L.Meta.unassigned_value} != reference {S.unassigned}')
        if bool(L.Meta.modal) != S.modal or bool(L.Meta.quantified) != S.quantified:
            out.violation('meta', dict(logic=name), dict(diag='modal/quantified-flag', logic=name),
                          f'{name}: modal={L.Meta.modal} quantified={L.Meta.quantified} vs reference {S.modal}/{S.quantified}')
        model = M()
        tf_inst = model.truth_function
        V = {str(v): v for v in L.Meta.values}
        lib_tables = {}
        for oname in syn.TRUTH_FUNCTIONAL:
            oper = Operator[oname]
            table = M.truth_table(oper)
            ref = S.table(oname)
            got_tt = {tuple(str(x) for x in k): str(v) for k, v in table.mapping.items()}
            lib_tables[oname] = got_tt
            if tuple(tuple(str(x) for x in i) for i in table.inputs) != tuple(ref):
                out.violation('table-inputs', dict(logic=name, operator=oname),
                              dict(diag='table-inputs', logic=name, operator=oname),
                              f'{name}.{oname}: truth_table inputs are not all value tuples in order')
            # the published table in the other value order, and the default order again afterwards: rows (inputs paired
            # with outputs) and mapping must say the same thing whatever was requested before
            for rev in (True, False, True):
                t2 = M.truth_table(oper, reverse=rev)
                want_inputs = tuple(product(tuple(reversed(S.values)) if rev else S.values, repeat=oper.arity))
                rows = {tuple(str(x) for x in i): str(o) for i, o in zip(t2.inputs, t2.outputs)}
                mp = {tuple(str(x) for x in k): str(v) for k, v in t2.mapping.items()}
                out.count('reordered_tables_checked')
                if tuple(tuple(str(x) for x in i) for i in t2.inputs) != want_inputs or rows != dict(ref) or mp != dict(ref):
                    badcell = next((k for k in ref if rows.get(k) != ref[k] or mp.get(k) != ref[k]), None)
                    if S.base_name == 'FDE' and badcell is not None and rows == got_tt and mp == got_tt:
                        continue        # same content as the default-order table: judged cell by cell below
                    out.violation('table-reordered', dict(logic=name, operator=oname, reverse=rev, cell=list(badcell or ())),
                                  dict(diag='table-depends-on-requested-order', operator=oname, reverse=rev),
                                  f'{name}.{oname}: truth_table(reverse={rev}) rows/mapping differ from the documented table '
                                  f'(first differing cell {badcell}: row {rows.get(badcell)}, mapping {mp.get(badcell)}, documented {ref.get(badcell)})')
                    break
            for tup, want in ref.items():
                out.case((name, oname, tup))
                out.count('cells_checked')
                g1 = got_tt.get(tup)
                g2 = str(tf_inst(oper, *[V[x] for x in tup]))
                g3 = str(getattr(M.truth_function, oname)(*[V[x] for x in tup]))
                # fourth path: what a finished model assigns to the operator applied to atoms with these values
                g4 = model_value(L, oname, tup)
                out.count('model_evaluations')
                got = {g1, g2, g3, g4}
                if S.unassigned in tup:
                    # fifth path: the same cell with the operands that carry the unassigned value simply left unassigned
                    g5 = model_value(L, oname, tup, skip=S.unassigned)
                    out.count('model_evaluations_with_unassigned_atoms')
                    got.add(g5)
                if got != {want}:
                    linear = (getattr(rsem.FDELinear(), oname)(*tup)
                              if S.base_name == 'FDE' else None)
                    out.violation(
                        'table-cell', dict(logic=name, operator=oname, inputs=list(tup), expected=want,
                                           truth_table=g1, call=g2, method=g3, value_of=g4, all_paths=sorted(map(str, got))),
                        dict(diag='table-mismatch', family=S.base_name, operator=oname,
                             nb_mix=('N' in tup and 'B' in tup),
                             matches_linear_order=(got == {linear})),
                        f'{name}: {oname}{tup} = {sorted(map(str, got))}, reference {want}')
            out.sample(dict(logic=name, operator=oname, table={''.join(k): v for k, v in got_tt.items()}), limit=3)

        # definitional identities: whichever the reference satisfies, the library must too
        def f(o, *xs): return lib_tables[o][tuple(xs)]
        def rf(o, *xs): return S.fn(o, *xs)
        for label, ident in IDENTITIES.items():
            holds_ref = all(len(set(ident(rf, a, b))) == 1 for a, b in product(S.values, repeat=2))
            if not holds_ref:
                continue
            for a, b in product(S.values, repeat=2):
                out.case((name, label, a, b))
                out.count('identities_checked')
                try:
                    l, r = ident(f, a, b)
                except KeyError as e:
                    out.violation('identity', dict(logic=name, identity=label, a=a, b=b),
                                  dict(diag='identity-undefined', logic=name, identity=label), repr(e))
                    continue
                if l != r:
                    out.violation('identity', dict(logic=name, identity=label, a=a, b=b, lhs=l, rhs=r),
                                  dict(diag='identity-broken', family=S.base_name, identity=label,
                                       nb_mix=('N' in (a, b) and 'B' in (a, b))),
                                  f'{name}: {label} fails at a={a}, b={b}: {l} != {r}')
        # a modal extension has exactly the tables of its base logic
        if S.modal:
            base = dict(K='CPL', D='CPL', T='CPL', S4='CPL', S5='CPL').get(name) or S.base_name
            if base == 'CPL' and name not in ('K', 'D', 'T', 'S4', 'S5'):
                base = S.base_name
            B = lib.logic('CFOL' if base == 'CPL' else base).Model
            for oname in syn.TRUTH_FUNCTIONAL:
                out.case((name, 'base-table', oname))
                out.count('base_tables_compared')
                bt = {tuple(str(x) for x in k): str(v) for k, v in B.truth_table(Operator[oname]).mapping.items()}
                if bt != lib_tables[oname]:
                    out.violation('base-table', dict(logic=name, base=base, operator=oname),
                                  dict(diag='modal-differs-from-base', logic=name, operator=oname),
                                  f'{name}.{oname} differs from base logic {base}')


def model_value(L, oname, tup, skip=None):
    from pytableaux.lang import Atomic, Operator
    m = L.Model()
    atoms = [Atomic(i, 0) for i in range(len(tup))]
    for a_, v in zip(atoms, tup):
        if skip is not None and v == skip:
            continue
        m.set_atomic_value(a_, v)
    m.finish()
    try:
        return str(m.value_of(Operator[oname](*atoms)))
    except Exception as e:
        return f'raises {type(e).__name__}'


def replay(wit):
    from ..worker import Out
    out = Out()
    case = wit['case']
    run_unit(dict(name='replay', logics=[case['logic']]), out, 'quick', 0)
    same = [v for v in out.violations if v['kind'] == wit['kind'] and v['diagnosis'] == wit['diagnosis']]
    return dict(violates=bool(same), detail=[v['message'] for v in same][:5])
