"""C14 - lexical items have value semantics."""
from __future__ import annotations

import copy
import pickle
import random
import warnings

from ..ref import syn

ID = 'C14'
META = dict(
    level='exploration',
    exhaustive=False,
    rule=('items of all nine lexical types (predicates incl. system predicates, constants, variables, quantifiers, operators, '
          'atomic / predicated / quantified / operated sentences to depth 4) and arguments, generated as REF-SYN tuples (random + '
          'near-miss families differing in exactly one coordinate) and built through the public constructors; per item: rebuild '
          'from ident (LexicalAbc(ident), Sentence/Parameter(ident)) and from spec (cls(*spec), LexType(cls)(*spec)), copy, '
          'deepcopy, pickle round trips, immutability (setattr/delattr); per pair: == <=> REF-SYN identical, equal => equal hash, '
          'exactly one of <, ==, >, type rank first; per triple: transitivity; sorted() independent of input order. Every worker '
          'runs under one ITEM_CACHE_SIZE in {1, 2, 7, 1000} with unrelated constructions interleaved; the construction cache is '
          'observed (never modified) to count evictions. non-trivial = distinct items (by REF-SYN tuple) of size >= 2 plus distinct '
          'unordered pairs compared.'),
    assumptions=['REF-SYN structural identity (vlib/ref/syn.py) is the notion of "structurally identical"',
                 'type rank order: Predicate < Constant < Variable < Quantifier < Operator < Atomic < Predicated < Quantified < Operated'],
    min_events={'quick': {'items_checked': 15000, 'pairs_compared': 300000, 'triples_checked': 100000, 'rebuilds_checked': 60000,
                          'cache_evictions_observed': 1000},
                'thorough': {'items_checked': 150000, 'pairs_compared': 1500000, 'triples_checked': 500000,
                             'cache_evictions_observed': 20000}},
    budget=dict(quick=1500, thorough=7200),
    unit_timeout=dict(quick=900, thorough=3000),
)
RANK = dict(pred=10, c=20, v=30, quant=40, oper=50, A=60, P=70, Q=80, O=90)
CACHE_SIZES = (1, 2, 7, 1000)
N_ITEMS = dict(quick=1500, thorough=5000)


def units(tier, seed):
    us = []
    k = 0
    for cs in CACHE_SIZES:
        for j in range(4 if tier == 'quick' else 10):
            us.append(dict(name=f'lex:cache{cs}:{j}', env={'ITEM_CACHE_SIZE': str(cs)}, cache=cs, idx=j))
            k += 1
    return us


# ------------------------------------------------------------------ generation (REF-SYN tuples)

M61 = (1 << 61) - 1
SUBS = (0, 0, 0, 1, 2, 9, 10, 11)


def rnd_param(rng, kind=None):
    kind = kind or rng.choice('cv')
    return (kind, rng.randint(0, 3), rng.choice(SUBS))


def rnd_pred(rng):
    r = rng.random()
    if r < 0.12:
        return syn.IDENTITY
    if r < 0.2:
        return syn.EXISTENCE
    return (rng.randint(0, 3), rng.choice(SUBS), rng.randint(1, 3))


def rnd_sentence(rng, depth):
    if depth <= 0 or rng.random() < 0.25:
        if rng.random() < 0.45:
            return ('A', rng.randint(0, 4), rng.choice(SUBS))
        p = rnd_pred(rng)
        return ('P', p, tuple(rnd_param(rng) for _ in range(p[2])))
    r = rng.random()
    if r < 0.25:
        return ('Q', rng.choice(syn.QUANTIFIERS), rnd_param(rng, 'v'), rnd_sentence(rng, depth - 1))
    o, ar = rng.choice(syn.OPERATORS)
    return ('O', o, tuple(rnd_sentence(rng, depth - 1) for _ in range(ar)))


def rnd_item(rng):
    r = rng.random()
    if r < 0.10:
        return ('pred',) + rnd_pred(rng)
    if r < 0.22:
        return rnd_param(rng)
    if r < 0.26:
        return ('quant', rng.choice(syn.QUANTIFIERS))
    if r < 0.32:
        return ('oper', rng.choice(syn.OPERATORS)[0])
    return rnd_sentence(rng, rng.randint(0, 4))


def near_misses(rng, t):
    "Items differing from t in exactly one coordinate."
    k = t[0]
    if k in ('A', 'c', 'v'):
        yield (k, (t[1] + 1) % 4, t[2])
        yield (k, t[1], t[2] + 1)
        yield (k, t[1], t[2] + M61)        # a different subscript with the same int hash (CPython hashes ints mod 2**61-1)
        if k != 'A':
            yield ('v' if k == 'c' else 'c', t[1], t[2])
    elif k == 'pred':
        if t[1] >= 0:
            yield ('pred', t[1], t[2] + M61, t[3])
            yield ('pred', t[1], t[2], t[3] + 1)
            yield ('pred', t[1], t[2] + 1, t[3])
            yield ('pred', (t[1] + 1) % 4, t[2], t[3])
    elif k == 'P':
        ps = list(t[2])
        if ps:
            i = rng.randrange(len(ps))
            ps2 = list(ps)
            ps2[i] = next(iter(near_misses(rng, ps[i])))
            yield ('P', t[1], tuple(ps2))
            if len(ps) == 2 and ps[0] != ps[1]:
                yield ('P', t[1], (ps[1], ps[0]))
    elif k == 'Q':
        yield ('Q', [q for q in syn.QUANTIFIERS if q != t[1]][0], t[2], t[3])
        yield ('Q', t[1], ('v', (t[2][1] + 1) % 4, t[2][2]), t[3])
        for nm in near_misses(rng, t[3]):
            yield ('Q', t[1], t[2], nm)
            break
    elif k == 'O':
        same = [o for o, a in syn.OPERATORS if a == len(t[2]) and o != t[1]]
        yield ('O', rng.choice(same), t[2])
        if len(t[2]) == 2 and t[2][0] != t[2][1]:
            yield ('O', t[1], (t[2][1], t[2][0]))
        i = rng.randrange(len(t[2]))
        for nm in near_misses(rng, t[2][i]):
            yield ('O', t[1], t[2][:i] + (nm,) + t[2][i + 1:])
            break


def kind_of(t):
    return t[0]


def rank_of(t):
    return RANK[t[0]]


# ------------------------------------------------------------------ unit

def run_unit(unit, out, tier, seed):
    import os
    from pytableaux.lang import (Argument, LexType, Parameter, Predicate, Sentence)
    from pytableaux.lang.lex import LexicalAbc, LexicalEnum, Lexical
    from pytableaux import errors
    warnings.simplefilter('ignore', category=errors.RepeatValueWarning)
    rng = random.Random(f'{seed}:{unit["name"]}')
    cache = type(LexicalAbc).__call__._cache
    maxlen = cache.queue.maxlen
    out.cover('cache_sizes', maxlen)
    if str(maxlen) != os.environ.get('ITEM_CACHE_SIZE'):
        out.note(f'cache size {maxlen} differs from requested {os.environ.get("ITEM_CACHE_SIZE")}')
    seen_ids = {}
    evictions = 0

    def observe_cache():
        nonlocal evictions
        now = {id(v) for v in cache.rev}
        gone = [k for k in seen_ids if k not in now]
        evictions += len(gone)
        for k in gone:
            del seen_ids[k]
        for k in now:
            seen_ids[k] = True

    def churn(n):
        "Unrelated constructions to push items out of the cache."
        for _ in range(n):
            syn.to_lib(rnd_sentence(rng, 2))

    def viol(clause, case, msg, **diag):
        out.violation('value-semantics', dict(case, cache_size=maxlen), dict(clause=clause, **diag), msg,
                      size=len(str(case)), env={'ITEM_CACHE_SIZE': str(maxlen)})

    items = []
    n_items = N_ITEMS[tier]
    while len(items) < n_items:
        t = rnd_item(rng)
        items.append(t)
        if rng.random() < 0.5:
            nm = list(near_misses(rng, t))
            rng.shuffle(nm)
            items.extend(nm[:2])
    built = []
    for t in items:
        try:
            x = syn.to_lib(t)
        except Exception as e:
            viol('construction-raises', dict(item=repr(t)), f'constructing {syn.show(t) if t[0] in "APQOcv" else t} raised {type(e).__name__}: {e}',
                 error=type(e).__name__, kind=t[0])
            continue
        built.append((t, x))
        observe_cache()
        if rng.random() < 0.3:
            churn(rng.randint(1, 6))
            observe_cache()
    out.sample(dict(items=[repr(t)[:120] for t, _ in built[:3]], cache_size=maxlen), limit=1)

    # ---- per item
    for t, x in built:
        out.count('items_checked')
        out.cover('kinds', t[0])
        size = syn.size(t) if t[0] in 'APQO' else 1
        out.case(('item', t), nontrivial=size >= 2)
        back = syn.any_from_lib(x)
        if back != t:
            viol('construct-then-read-differs', dict(item=repr(t), read=repr(back)), f'{t} built and read back as {back}', kind=t[0])
            continue
        churn(2)
        sys_pred = (t[0] == 'pred' and t[1] < 0)
        has_sys = any(p[0] < 0 for p in (syn.predicates(t) if t[0] in 'APQO' else ([t[1:]] if t[0] == 'pred' else [])))
        # rebuild from ident / spec
        rebuilds = [('LexicalAbc(ident)', lambda: LexicalAbc(x.ident)),
                    ('cls(*spec)', lambda: type(x)(*x.spec)),
                    ('LexType(cls)(*spec)', lambda: LexType(type(x))(*x.spec))]
        if isinstance(x, Sentence):
            rebuilds.append(('Sentence(ident)', lambda: Sentence(x.ident)))
        if isinstance(x, Parameter):
            rebuilds.append(('Parameter(ident)', lambda: Parameter(x.ident)))
        rebuilds += [('copy', lambda: copy.copy(x)), ('deepcopy', lambda: copy.deepcopy(x)),
                     ('pickle', lambda: pickle.loads(pickle.dumps(x)))]
        for label, f in rebuilds:
            out.count('rebuilds_checked')
            try:
                y = f()
            except Exception as e:
                viol('rebuild-raises', dict(item=repr(t), how=label, error=f'{type(e).__name__}: {e}'),
                     f'{label} of {t} raised {type(e).__name__}: {e}', how=label, kind=t[0], error=type(e).__name__,
                     system_predicate_involved=has_sys)
                continue
            try:
                same = (y == x) and (x == y) and hash(y) == hash(x) and syn.any_from_lib(y) == t
            except Exception as e:
                same = False
            if not same:
                viol('rebuild-not-equal', dict(item=repr(t), how=label, got=repr(syn.any_from_lib(y)) if isinstance(y, Lexical) else repr(y)),
                     f'{label} of {t} is not an equal item', how=label, kind=t[0], system_predicate_involved=has_sys)
        # immutability
        for attr in ('index', 'subscript', 'spec', 'ident', 'sort_tuple', 'hash', 'operator', 'operands', 'sentence', 'params', 'foo'):
            before = syn.any_from_lib(x)
            try:
                setattr(x, attr, 12345)
                changed = True
            except Exception:
                changed = False
            if changed and (syn.any_from_lib(x) != before or getattr(x, attr, None) == 12345):
                viol('setattr-accepted', dict(item=repr(t), attr=attr), f'setattr({t}, {attr!r}) succeeded', attr=attr, kind=t[0])
                break
        for attr in ('spec', 'sort_tuple', 'index'):
            if hasattr(x, attr):
                try:
                    delattr(x, attr)
                    ok = hasattr(x, attr)
                except Exception:
                    ok = True
                if not ok:
                    viol('delattr-accepted', dict(item=repr(t), attr=attr), f'delattr({t}, {attr!r}) succeeded', attr=attr, kind=t[0])
                    break
        out.count('immutability_checked')
    observe_cache()

    # ---- pairs
    n_pairs = 30 * len(built)
    def cmp3(x, y):
        return (bool(x < y), bool(x == y), bool(x > y))
    for _ in range(n_pairs):
        (t1, x1), (t2, x2) = rng.choice(built), rng.choice(built)
        if rng.random() < 0.15:
            t2 = t1
            try:
                x2 = syn.to_lib(t1)      # a second construction of the same item (maybe after eviction)
            except Exception:
                continue
        out.count('pairs_compared')
        out.case(('pair',) + tuple(sorted((repr(t1), repr(t2)))), nontrivial=True)
        try:
            lt, eq, gt = cmp3(x1, x2)
            ne = bool(x1 != x2)
            le, ge = bool(x1 <= x2), bool(x1 >= x2)
            h1, h2 = hash(x1), hash(x2)
        except Exception as e:
            viol('comparison-raises', dict(a=repr(t1), b=repr(t2), error=repr(e)), f'comparing {t1} and {t2} raised {e!r}',
                 kinds=sorted({t1[0], t2[0]}), error=type(e).__name__)
            continue
        pair = dict(a=repr(t1), b=repr(t2))
        if eq != (t1 == t2):
            viol('equality-differs-from-structure', pair, f'{t1} == {t2} is {eq}, structurally {t1 == t2}', kinds=sorted({t1[0], t2[0]}))
        elif eq and h1 != h2:
            viol('equal-items-unequal-hash', pair, f'{t1}: equal items hash {h1} vs {h2}', kinds=sorted({t1[0], t2[0]}))
        if (lt, eq, gt).count(True) != 1 or ne == eq or le != (lt or eq) or ge != (gt or eq):
            viol('not-a-total-order', dict(pair, lt=lt, eq=eq, gt=gt, ne=ne, le=le, ge=ge),
                 f'{t1} vs {t2}: lt={lt} eq={eq} gt={gt} ne={ne} le={le} ge={ge}', kinds=sorted({t1[0], t2[0]}))
        elif rank_of(t1) != rank_of(t2) and lt != (rank_of(t1) < rank_of(t2)):
            viol('type-rank-not-first', pair, f'{t1} < {t2} is {lt} against type ranks', kinds=sorted({t1[0], t2[0]}))
        # antisymmetry via the reverse comparison
        try:
            rlt, req, rgt = cmp3(x2, x1)
        except Exception:
            continue
        if (rlt, req, rgt) != (gt, eq, lt):
            viol('asymmetric-comparison', pair, f'{t1} vs {t2}: forward {(lt, eq, gt)} reverse {(rlt, req, rgt)}', kinds=sorted({t1[0], t2[0]}))
    # ---- triples (transitivity) and sorting
    for _ in range(10 * len(built)):
        tr = [rng.choice(built) for _ in range(3)]
        out.count('triples_checked')
        (ta, a), (tb, b), (tc, c) = tr
        try:
            if a <= b and b <= c and not (a <= c):
                viol('not-transitive', dict(a=repr(ta), b=repr(tb), c=repr(tc)), f'{ta} <= {tb} <= {tc} but not {ta} <= {tc}',
                     kinds=sorted({ta[0], tb[0], tc[0]}))
            if a == b and b == c and not (a == c):
                viol('equality-not-transitive', dict(a=repr(ta), b=repr(tb), c=repr(tc)), 'a == b == c but a != c',
                     kinds=sorted({ta[0], tb[0], tc[0]}))
        except Exception:
            pass
    for _ in range(40):
        sample = [rng.choice(built) for _ in range(rng.randint(3, 12))]
        xs = [x for _, x in sample]
        out.count('sorts_checked')
        try:
            s1 = [syn.any_from_lib(v) for v in sorted(xs)]
            ys = list(xs)
            rng.shuffle(ys)
            s2 = [syn.any_from_lib(v) for v in sorted(ys)]
        except Exception as e:
            viol('sorted-raises', dict(items=[repr(t) for t, _ in sample]), f'sorted raised {e!r}', error=type(e).__name__)
            continue
        if s1 != s2:
            viol('sorted-depends-on-input-order', dict(items=[repr(t) for t, _ in sample]), 'sorted() result depends on input order')
        if [RANK[v[0]] for v in s1] != sorted(RANK[v[0]] for v in s1):
            viol('sorted-not-by-type-rank', dict(items=[repr(t) for t, _ in sample]), 'sorted() does not order by type rank first')

    # ---- arguments
    sents = [(t, x) for t, x in built if t[0] in 'APQO']
    for _ in range(len(built) // 2):
        if len(sents) < 4:
            break
        n1 = rng.randint(0, 3)
        ts1 = [rng.choice(sents) for _ in range(n1 + 1)]
        r_ = rng.random()
        if r_ < 0.3:
            # one sentence replaced by a near miss of it (incl. hash-colliding subscripts)
            ts2 = list(ts1)
            j = rng.randrange(len(ts2))
            nm = list(near_misses(rng, ts2[j][0]))
            if nm:
                try:
                    t_nm = rng.choice(nm)
                    ts2[j] = (t_nm, syn.to_lib(t_nm))
                except Exception:
                    pass
        elif r_ < 0.6:
            ts2 = list(ts1)
            if rng.random() < 0.5 and len(ts2) > 2:
                ts2[1], ts2[2] = ts2[2], ts2[1]      # premise order matters
        else:
            ts2 = [rng.choice(sents) for _ in range(rng.randint(0, 3) + 1)]
        out.count('arguments_compared')
        try:
            a1 = Argument(ts1[0][1], [x for _, x in ts1[1:]])
            a2 = Argument(ts2[0][1], [x for _, x in ts2[1:]], title='other title')
            k1, k2 = [t for t, _ in ts1], [t for t, _ in ts2]
            eq = bool(a1 == a2)
            if eq != (k1 == k2):
                viol('argument-equality-differs-from-structure', dict(a=repr(k1), b=repr(k2)), f'arguments == is {eq}, structurally {k1 == k2}')
            elif eq and hash(a1) != hash(a2):
                viol('equal-arguments-unequal-hash', dict(a=repr(k1)), 'equal arguments with different hashes')
            if (bool(a1 < a2), eq, bool(a1 > a2)).count(True) != 1:
                viol('argument-order-not-total', dict(a=repr(k1), b=repr(k2)), 'not exactly one of <, ==, >')
            for label, f in (('copy', lambda: copy.copy(a1)), ('deepcopy', lambda: copy.deepcopy(a1)),
                             ('pickle', lambda: pickle.loads(pickle.dumps(a1))), ('Argument(arg)', lambda: Argument(a1))):
                y = f()
                if not (y == a1 and hash(y) == hash(a1)):
                    viol('argument-rebuild-not-equal', dict(a=repr(k1), how=label), f'{label} of an argument is not equal', how=label)
            try:
                a1.premises = ()
                viol('argument-setattr-accepted', dict(a=repr(k1)), 'setattr on an Argument succeeded')
            except Exception:
                pass
        except Exception as e:
            viol('argument-operation-raises', dict(a=repr([t for t, _ in ts1]), error=repr(e)), f'argument operation raised {e!r}',
                 error=type(e).__name__)
    observe_cache()
    out.count('cache_evictions_observed', evictions)
    out.count('cache_items_final', len(cache.rev))


def replay(wit):
    """Replays by re-running the unit's generator is not possible for a single
    case; rebuild the case directly."""
    import os
    from ..worker import Out
    out = Out()
    # the generic path: run one small unit under the same cache size and look for the same diagnosis
    cs = wit['case'].get('cache_size', 1)
    if str(os.environ.get('ITEM_CACHE_SIZE')) != str(cs):
        return dict(violates=False, detail=f'replay must run with ITEM_CACHE_SIZE={cs} (witness env)')
    for j in range(6):
        run_unit(dict(name=f'lex:cache{cs}:{j}', cache=cs, idx=j), out, 'quick', 0)
        same = [v for v in out.violations if v['diagnosis'] == wit['diagnosis']]
        if same:
            return dict(violates=True, detail=[v['message'][:300] for v in same][:3])
    return dict(violates=False, detail='diagnosis not reproduced in 6 units')
