"""C20 - the published description of a model says what the model evaluates."""
from __future__ import annotations

import random
from itertools import product

from .. import gen, lib, modelgen as mg, proofcheck as pc, runs, tabs, workload
from ..ref import sem as rsem, syn

ID = 'C20'
META = dict(
    level='exploration',
    exhaustive=False,
    rule=('finished models from two sources in every logic: (a) branch.model of the open branches of INVALID runs of the shared proof '
          'workload (is_build_models=True), (b) models assembled through the public model API (as in C08). For each: get_data() must '
          'list exactly the model\'s worlds (every world in frames or R) and exactly the pairs of R (sorted); for each world give each '
          'sentence letter and uninterpreted sentence the value value_of() returns there; list a tuple in a predicate\'s extension iff '
          'value_of(predication) is T or B and (many-valued logics) in the anti-extension iff it is F or B, for every tuple over the '
          'model\'s constants (arity <= 2; listed tuples of any arity); two calls must be equal; value lists must be sorted. '
          'non-trivial = distinct models with >= 2 stored facts.'),
    assumptions=['the statement is relative to the library\'s own evaluator (value_of); the evaluator itself is C08'],
    min_events={'quick': {'models_checked': 4000, 'branch_models': 1500, 'built_models': 1500, 'predicate_tuples_checked': 20000, 'logics': 52},
                'thorough': {'models_checked': 120000, 'logics': 52}},
    budget=dict(quick=1500, thorough=7200),
    unit_timeout=dict(quick=900, thorough=3000),
)
NBUILT = dict(quick=30, thorough=1200)
NRANDOM = dict(quick=25, thorough=500)


NMIXED = dict(quick=12, thorough=48)


def units(tier, seed):
    # per-logic units, plus units that export models of MANY logics in one process in seeded orders (class-level state
    # shared along the model classes' inheritance chains is only visible across logics)
    return [dict(name=f'data:{n}', logic=n) for n in lib.STATIC_LOGICS] + \
           [dict(name=f'mixed:{k}', logic=None, k=k) for k in range(NMIXED[tier])]


def run_mixed(unit, out, tier, seed):
    k = unit['k']
    rng = random.Random(f'{seed}:mixed:{k}')
    names = [n for n in lib.STATIC_LOGICS if n in lib.logic_names()]
    if k % 4 == 0:
        order = sorted(names, key=lambda n: (len(rsem.sem(n).values) != 4, rng.random()))      # four-valued family first
    elif k % 4 == 1:
        order = sorted(names, key=lambda n: (not rsem.sem(n).modal, rng.random()))            # modal logics first
    elif k % 4 == 2:
        order = sorted(names, key=lambda n: (rsem.sem(n).modal, rng.random()))                # base logics first
    else:
        order = names[:]
        rng.shuffle(order)
    order = order[:24] if tier == 'quick' else order
    out.cover('mixed_orders', '>'.join(order[:6]))
    for name in order:
        S = rsem.sem(name)
        for i in range(3):
            facts, worlds, consts = mg.random_facts(rng, S)
            try:
                m = mg.build(name, facts)
            except Exception:
                out.count('built_models_rejected')
                continue
            out.count('mixed_process_models')
            out.case(('mixed', k, name, tuple(facts)), nontrivial=len(facts) >= 2)
            check_data(name, S, m, out, 'built',
                       dict(logic=name, facts=mg.facts_to_json(facts), shown=[mg.show_fact(f) for f in facts],
                            earlier_logics_in_process=order[:order.index(name)]))


def frames_data(name, data):
    "world -> frame data dict"
    if lib.logic(name).Meta.modal:
        worlds = list(data['Worlds']['values'])
        frames = {w: fr['value'] for w, fr in zip(worlds, data['Frames']['values'])}
        access = [tuple(p) for p in data['Access']['values']]
        return worlds, access, frames
    return [0], [], {0: data}


def check_data(name, S, m, out, source, case):
    from pytableaux.lang import Predicated

    def viol(clause, msg, **diag):
        out.violation('model-data', dict(case, source=source), dict(clause=clause, source=source, family=S.base_name,
                                                                     frame=S.frame, **diag), f'{name} [{source}]: {msg}',
                      size=len(str(case)))
    out.count('models_checked')
    out.count('branch_models' if source == 'branch' else 'built_models')
    try:
        d1 = m.get_data()
        d2 = m.get_data()
    except Exception as e:
        viol('get_data-raises', f'{type(e).__name__}: {e}', error=type(e).__name__)
        return
    if repr(d1) != repr(d2):
        viol('get_data-not-deterministic', 'two calls differ')
    worlds, access, frames = frames_data(name, d1)
    modal = lib.logic(name).Meta.modal
    # model's worlds / access as the evaluator sees them
    real_worlds = sorted(set(m.frames) | set(m.R) | {w2 for w in m.R for w2 in m.R[w]}) if modal else [0]
    real_access = sorted((w1, w2) for w1 in m.R for w2 in m.R[w1]) if modal else []
    if modal:
        if list(worlds) != real_worlds:
            viol('worlds-differ', f'get_data lists worlds {list(worlds)}, the model has {real_worlds}',
                 missing=len(set(real_worlds) - set(worlds)), extra=len(set(worlds) - set(real_worlds)))
        if access != real_access:
            viol('access-differs', f'get_data lists access {access}, the model has {real_access}',
                 sorted_ok=(access == sorted(access)))
    consts = sorted(m.constants)
    many = len(S.values) > 2
    for w in worlds:
        fr = frames.get(w)
        if fr is None:
            continue
        kw = dict(world=w) if modal else {}
        for part in ('Atomics', 'Opaques'):
            vals = fr[part]['values']
            ins = [v['input'] for v in vals]
            if ins != sorted(ins):
                viol('not-sorted', f'{part} at world {w} not sorted', part=part)
            for v in vals:
                out.count('sentence_values_checked')
                try:
                    real = m.value_of(v['input'], **kw)
                except Exception as e:
                    viol('value_of-raises-on-listed-sentence', f'{v["input"]} at {w}: {e!r}', part=part)
                    continue
                if str(real) != str(v['output']):
                    viol('listed-value-differs', f'{part}: {v["input"]} at world {w} listed {v["output"]}, evaluates to {real}', part=part)
        # every atom / opaque the model knows at any world should be listed (it evaluates them everywhere)
        listed = {}
        for pv in fr['Predicates']['values']:
            sym = pv['symbol']
            for item in pv['values']:
                listed.setdefault((item['input'], 'anti' if sym.endswith('-') else 'ext'), []).extend(item['output'])
                if list(item['output']) != sorted(item['output']):
                    viol('not-sorted', f'extension of {item["input"]} at world {w} not sorted', part='Predicates')
        preds = set(m.frames[w].predicates) if w in m.frames else set()
        for p in preds:
            ext = set(map(tuple, listed.get((p, 'ext'), [])))
            anti = set(map(tuple, listed.get((p, 'anti'), [])))
            tuples = set(ext) | set(anti)
            if p.arity <= 2:
                tuples |= set(product(consts, repeat=p.arity))
            for t in tuples:
                out.count('predicate_tuples_checked')
                try:
                    val = str(m.value_of(Predicated(p, t), **kw))
                except Exception as e:
                    viol('value_of-raises-on-listed-tuple', f'{p}{t} at {w}: {e!r}')
                    continue
                in_ext, in_anti = t in ext, t in anti
                if in_ext != (val in 'TB'):
                    viol('extension-differs-from-evaluation',
                         f'{p}{[str(c) for c in t]} at world {w} evaluates to {val} but in-extension={in_ext}',
                         direction='listed-but-not-true' if in_ext else 'true-but-not-listed', system=bool(p.is_system))
                if many and in_anti != (val in 'FB'):
                    viol('anti-extension-differs-from-evaluation',
                         f'{p}{[str(c) for c in t]} at world {w} evaluates to {val} but in-anti-extension={in_anti}',
                         direction='listed-but-not-false' if in_anti else 'false-but-not-listed', value=val,
                         unassigned_is_false=(S.unassigned == 'F'))
                if not many and anti:
                    viol('anti-extension-in-bivalent-logic', f'{p} lists an anti-extension')


def run_unit(unit, out, tier, seed):
    if unit.get('logic') is None:
        return run_mixed(unit, out, tier, seed)
    name = unit['logic']
    if name not in lib.logic_names():
        out.note(f'logic {name} no longer registered')
        return
    S = rsem.sem(name)
    desig = tabs.uses_designation(name)
    out.count('logics')
    out.cover('logics', name)
    rng = random.Random(f'{seed}:{name}:c20')
    # (b) built models
    for i in range(NBUILT[tier]):
        facts, worlds, consts = mg.random_facts(rng, S)
        try:
            m = mg.build(name, facts)
        except Exception:
            out.count('built_models_rejected')
            continue
        out.case((name, 'built', tuple(facts)), nontrivial=len(facts) >= 2)
        check_data(name, S, m, out, 'built', dict(logic=name, facts=mg.facts_to_json(facts), shown=[mg.show_fact(f) for f in facts]))
        if i == 0:
            out.sample(dict(logic=name, source='built', facts=[mg.show_fact(f) for f in facts][:10]), limit=1)
    # (a) branch models
    cases = list(workload.cases(name, desig, rng, n_random=NRANDOM[tier], with_examples=(tier == 'thorough')))
    rng.shuffle(cases)
    if tier == 'quick':
        cases = cases[:110]
    for i, (label, frag, arg) in enumerate(cases):
        cfg, driver, order = workload.config_cycle(i, seed)
        r = pc.run_cfg(name, arg, cfg, driver, order, tier, models=True)
        if r.outcome != 'INVALID':
            continue
        for bi, b in enumerate(r.tab.open):
            if b.model is None:
                continue
            out.case((name, 'branch', gen.arg_key(arg), bi), nontrivial=len(b) >= 2)
            check_data(name, S, b.model, out, 'branch',
                       dict(logic=name, argument=gen.arg_to_json(arg), branch=bi, **pc.cfg_json(cfg, driver, order)))
        if i == 3:
            out.sample(dict(logic=name, source='branch', argument=gen.show_arg(arg)), limit=1)


def replay(wit):
    from ..worker import Out
    out = Out()
    c = wit['case']
    name = c['logic']
    S = rsem.sem(name)
    if c.get('source') == 'built':
        # a witness of a mixed-logic unit: first export a model of each logic that was exported before it in that process
        for prev in c.get('earlier_logics_in_process') or ():
            try:
                mg.build(prev, mg.random_facts(random.Random(0), rsem.sem(prev))[0]).get_data()
            except Exception:
                pass
        m = mg.build(name, mg.facts_from_json(c['facts']))
        check_data(name, S, m, out, 'built', c)
    else:
        r = pc.run_cfg(name, gen.arg_from_json(c['argument']), c['cfg'], c['driver'], c['order'], 'thorough', models=True)
        for b in r.tab.open:
            if b.model is not None:
                check_data(name, S, b.model, out, 'branch', c)
    same = [v for v in out.violations if v['diagnosis'].get('clause') == wit['diagnosis'].get('clause')]
    return dict(violates=bool(same), detail=[v['message'][:300] for v in same][:3])
