"""C04 - every single expansion step preserves satisfiability exactly; frame rules
produce exactly the required closure. Exhaustive over logics x node shapes x
small interpretations."""
from __future__ import annotations

from itertools import product

from .. import gen, lib, tabs
from ..ref import sem as rsem, syn

ID = 'C04'
META = dict(
    level='exploration',
    exhaustive=True,
    rule=('every logic x every compound node shape it interprets (10 operators, 2 quantifiers, double negation; negated or '
          'not; designated/undesignated or unmarked) is put on the trunk of a real Tableau (with a constant / access-node '
          'context) and stepped with the full rule set until a rule targets it (has-an-expansion); that rule class is then '
          'run alone (plus the logic\'s access rules for non-witness modal rules) to exhaustion and the resulting branches '
          'are compared with REF-SEM over ALL interpretations of the components: all value pairs for operators; all monadic '
          'valuations over the domain named by 0..2 (thorough 3) present constants for quantifiers; all frames of the logic\'s '
          'class over <= 2 (thorough 3) worlds x all valuations for witness-introducing modal rules; the branch\'s own '
          'canonical frame x all valuations for necessity-type rules. Oracle: node satisfied <=> all added nodes of some '
          'resulting branch satisfied (for some witness). Frame rules: all 512 access relations over 3 worlds (x which worlds '
          'carry a sentence: all / none / world 0 only; all 8 subsets for D) built to completion, final pairs == required closure. '
          'A case = (logic, shape, context, interpretation); non-trivial = distinct (logic, shape, context) and frame cases.'),
    assumptions=['REF-SEM semantics (vlib/ref/sem.py), incl. lattice reading of the FDE family',
                 'components are atoms A, B, their negations (truth-functional shapes) / monadic Fx: exactness for arbitrary components follows by compositionality of REF-SEM'],
    min_events={'any': {'shapes_with_expansion': 5000, 'interpretations_checked': 20000, 'frame_cases': 6000, 'logics': 52}},
    budget=dict(quick=1500, thorough=7200),
    unit_timeout=dict(quick=900, thorough=3000),
)

A, B, E = syn.atom(0), syn.atom(1), syn.atom(4)
a, b, c = syn.const(0), syn.const(1), syn.const(2)
x = syn.var(0)
F, G = syn.pred(0, 0, 1), syn.pred(1, 0, 1)
Fx = syn.papp(F, x)


def shapes(S, desig):
    ds = (True, False) if desig else (None,)
    for oname, arity in syn.OPERATORS:
        modal = oname in syn.MODAL
        if modal and not S.modal:
            continue
        # components: atoms, and (for the truth-functional operators) negated atoms -- a rule that un-negates a component
        # where it should negate it is exact on atoms but not where double negation is not the identity (G3, P3)
        variants = [(A, B)]
        if oname != 'Negation':
            variants += [(syn.neg(A), B), (A, syn.neg(B)), (syn.neg(A), syn.neg(B))] if arity == 2 else [(syn.neg(A), B)]
        for ca, cb in variants:
            body = syn.op(oname, ca) if arity == 1 else syn.op(oname, ca, cb)
            for negated in (False, True):
                if oname == 'Negation' and not negated:
                    continue
                s = syn.neg(body) if negated else body
                for d in ds:
                    yield ('modal' if modal else 'oper'), s, d
    if S.quantified:
        for q in syn.QUANTIFIERS:
            # the quantified body an atom-like predication, and its negation (an instantiation rule that un-negates
            # instead of negating is exact only where double negation is the identity)
            for inner in (Fx, syn.neg(Fx)):
                body = syn.quant(q, x, inner)
                for negated in (False, True):
                    s = syn.neg(body) if negated else body
                    for d in ds:
                        yield 'quant', s, d


def units(tier, seed):
    us = [dict(name=f'rules:{n}', kind='rules', logic=n) for n in lib.STATIC_LOGICS]
    for n in lib.STATIC_LOGICS:
        S = rsem.sem(n)
        if S.modal:
            us.append(dict(name=f'frames:{n}', kind='frames', logic=n))
            us.append(dict(name=f'insitu:{n}', kind='insitu', logic=n))
    return us


# ----------------------------------------------------------------- tableau side

def make_argument(s, d, desig, consts):
    """An argument whose trunk contains the node (s, d) plus literal context
    nodes mentioning ``consts``."""
    from pytableaux.lang import Argument
    ctx = [syn.papp(G, k) for k in consts]
    if desig:
        if d:
            prem, conc = [s] + ctx, E
        else:
            prem, conc = ctx, s
    else:
        # unmarked systems: trunk = premises + negated conclusion
        if s[0] == 'O' and s[1] == 'Negation':
            prem, conc = ctx, s[2][0]
        else:
            prem, conc = [s] + ctx, E
    return Argument(syn.to_lib(conc), [syn.to_lib(p) for p in prem])


def find_trunk_node(tab, s, d):
    want = syn.to_lib(s)
    for node in tab[0]:
        if node.get('sentence') == want and node.get('designated') == d:
            return node
    raise RuntimeError('trunk node not found')


def run_isolated(name, rule_classes, s, d, desig, consts, access_ctx, max_steps=200):
    """Build a tableau with only ``rule_classes`` whose trunk holds (s, d);
    returns (pre_specs, [post_specs per branch], history names)."""
    tab = tabs.new_tableau(name, only_rules=rule_classes, max_steps=max_steps)
    tab.argument = make_argument(s, d, desig, consts)
    br = tab[0]
    seen_w = {0}
    for w1, w2 in access_ctx:
        br.append(tabs.mk_node(('R', w1, w2)))
        for w in (w1, w2):
            # every world of a real proof carries a sentence: give the context worlds one
            if w not in seen_w:
                seen_w.add(w)
                br.append(tabs.mk_node(('S', E, True if desig else None, w)))
    pre = tabs.branch_specs(br)
    tab.build()
    posts = [tabs.branch_specs(bb) for bb in tab]
    return tab, pre, posts


# ----------------------------------------------------------------- semantics side

def sat(I, spec, wmap=None, csub=None):
    "Is node spec ('S', sentence, d, w) satisfied by interpretation I?"
    _, s, d, w = spec
    if csub:
        for new, old in csub:
            s = syn.subst(s, new, old)
    w = 0 if w is None else w
    if wmap:
        w = wmap.get(w, w)
    return (I.value(s, w) in I.sem.designated) == (True if d is None else d)


def spec_worlds(spec):
    if spec[0] == 'S':
        return () if spec[3] is None else (spec[3],)
    if spec[0] == 'R':
        return (spec[1], spec[2])
    return ()


def spec_consts(spec):
    return syn.constants(spec[1]) if spec[0] == 'S' else frozenset()


def frames_upto(S, m):
    "All (worlds, R) with worlds = 0..k-1, k <= m, R satisfying the frame class."
    for k in range(1, m + 1):
        ws = list(range(k))
        pairs = [(i, j) for i in ws for j in ws]
        for bits in product((0, 1), repeat=len(pairs)):
            R = {w: set() for w in ws}
            for (i, j), bit in zip(pairs, bits):
                if bit:
                    R[i].add(j)
            if S.frame_ok(R, ws):
                yield ws, R


def check_equivalence(out, name, S, kind, s, d, rule_name, ctx_label, pre, posts, interps, witness_mode):
    """interps: iterable of (Interp, info). witness_mode: None | 'const' | 'world'."""
    node_spec = ('S', s, d, tabs.world0(name))
    pre_set = list(pre)
    pre_worlds = {w for sp in pre for w in spec_worlds(sp)}
    pre_consts = frozenset().union(*[spec_consts(sp) for sp in pre]) if pre else frozenset()
    branches = []
    for post in posts:
        added = post[len(pre_set):]
        if post[:len(pre_set)] != pre_set:
            out.violation('branch-not-extension', dict(logic=name, shape=tabs.show_spec(node_spec), rule=rule_name),
                          dict(diag='post-branch-does-not-extend-pre', rule=rule_name, family=S.base_name),
                          f'{name}/{rule_name}: a resulting branch does not extend the original nodes')
            return
        added = [sp for sp in added if sp[0] in ('S', 'R')]
        new_w = sorted({w for sp in added for w in spec_worlds(sp)} - pre_worlds)
        new_c = sorted(frozenset().union(*[spec_consts(sp) for sp in added]) - pre_consts) if added else []
        branches.append((added, new_w, new_c))
    n = 0
    failing = []
    SL = rsem.sem_linear(name) if S.base_name == 'FDE' else None

    def ext_satisfied(I):
        for added, new_w, new_c in branches:
            snodes = [sp for sp in added if sp[0] == 'S']
            rnodes = [sp for sp in added if sp[0] == 'R']
            if new_w:
                cands = []
                if len(new_w) == 1:
                    # the new world must be reached as the access nodes say
                    for u in I.worlds:
                        wmap = {new_w[0]: u}
                        if all(wmap.get(r[2], r[2]) in I.R.get(wmap.get(r[1], r[1]), ()) for r in rnodes):
                            cands.append((wmap, None))
            elif new_c:
                cands = [(None, [(e, nc) for nc in new_c]) for e in I.domain] if len(new_c) == 1 else []
            else:
                cands = [(None, None)] if all(r[2] in I.R.get(r[1], ()) for r in rnodes) else []
            for wmap, csub in cands:
                if all(sat(I, sp, wmap, csub) for sp in snodes):
                    return True
        return False

    for I, info in interps:
        n += 1
        node_sat = sat(I, node_spec)
        ext_sat = ext_satisfied(I)
        if node_sat != ext_sat:
            also_linear = None
            if SL is not None:
                I2 = rsem.Interp(SL, worlds=I.worlds, R=I.R, domain=I.domain, atoms=I.atoms, preds=I.preds)
                also_linear = sat(I2, node_spec) != ext_satisfied(I2)
            failing.append((info, node_sat, ext_sat, also_linear))
    out.count('interpretations_checked', n)
    if failing:
        dirs = sorted({'unsound-expansion' if ns else 'unfaithful-expansion' for _, ns, _, _ in failing})
        info, node_sat, ext_sat, _ = failing[0]
        diag = dict(diag='+'.join(dirs), family=S.base_name, classical=S.classical, rule=rule_name,
                    shape=syn.show(s) + {True: '+', False: '-', None: ''}[d])
        if SL is not None:
            diag['fails_under_linear_order_too'] = any(al for *_, al in failing)
            diag['only_nb_mixed'] = all(('N' in str(i) and 'B' in str(i)) for i, *_ in failing)
        out.violation(
            'expansion-not-exact',
            dict(logic=name, shape=tabs.show_spec(node_spec), rule=rule_name, context=ctx_label,
                 failing_interpretations=len(failing), of=n,
                 interpretation=info, node_satisfied=node_sat, some_extension_satisfied=ext_sat,
                 more=[f[0] for f in failing[1:6]],
                 branches=[[tabs.show_spec(sp) for sp in added] for added, _, _ in branches]),
            diag,
            f'{name}/{rule_name}: node {tabs.show_spec(node_spec)} satisfied={node_sat} but '
            f'some-extension-satisfied={ext_sat} under {info} ({len(failing)}/{n} interpretations fail); branches='
            f'{[[tabs.show_spec(sp) for sp in added] for added, _, _ in branches]}',
            size=len(str(info)))
        return False
    return True


def run_rules(name, out, tier):
    S = rsem.sem(name)
    desig = tabs.uses_designation(name)
    w0 = tabs.world0(name)
    access = tabs.access_rule_classes(name)
    V = S.values
    from pytableaux.proof import rules as prules
    for kind, s, d in shapes(S, desig):
        shape_label = syn.show(s) + {True: '+', False: '-', None: ''}[d]
        # ---- step 1: which rule expands this shape under the full rule set?
        consts = (a,) if kind == 'quant' else ()
        actx = ((0, 1),) if kind == 'modal' else ()
        tab = tabs.new_tableau(name, max_steps=60)
        tab.argument = make_argument(s, d, desig, consts)
        br = tab[0]
        for p in actx:
            br.append(tabs.mk_node(('R',) + p))
        node = find_trunk_node(tab, s, d)
        rule_cls = None
        seen = []
        for _ in range(40):
            entry = tab.step()
            if entry is None:
                break
            seen.append(entry.rule.name)
            if isinstance(entry.rule, (prules.BaseAccessRule, prules.ClosingRule)):
                continue
            if entry.target.get('node') is node or node in (entry.target.get('nodes') or ()):
                if not entry.target.get('flag'):
                    rule_cls = type(entry.rule)
                    break
        out.case((name, shape_label, 'has-expansion'))
        if rule_cls is None:
            out.violation('no-expansion', dict(logic=name, shape=shape_label, steps=seen),
                          dict(diag='shape-without-expansion', family=S.base_name, classical=S.classical, shape=shape_label),
                          f'{name}: no rule targets the node {shape_label} (steps taken: {seen})')
            continue
        out.count('shapes_with_expansion')
        out.cover('rules_applied', f'{S.base_name}:{rule_cls.name}' if not S.classical else f'CPL:{rule_cls.name}')
        rname = rule_cls.name

        if kind == 'oper':
            tabx, pre, posts = run_isolated(name, [rule_cls], s, d, desig, (), ())
            # world-stays check
            for post in posts:
                for sp in post[len(pre):]:
                    if sp[0] == 'R' or (sp[0] == 'S' and sp[3] != w0):
                        out.violation('world-changed', dict(logic=name, shape=shape_label, rule=rname, node=tabs.show_spec(sp)),
                                      dict(diag='non-modal-expansion-changes-world', rule=rname, family=S.base_name),
                                      f'{name}/{rname}: non-modal expansion of {shape_label} produced {tabs.show_spec(sp)}')
            def interps():
                for va, vb in product(V, repeat=2):
                    I = rsem.Interp(S, worlds=(0,), R={0: {0}}, atoms={(0, A): va, (0, B): vb})
                    yield I, dict(A=va, B=vb)
            out.case((name, shape_label, 'oper'))
            check_equivalence(out, name, S, kind, s, d, rname, 'bare', pre, posts, interps(), None)
            out.sample(dict(logic=name, shape=shape_label, rule=rname,
                            branches=[[tabs.show_spec(sp) for sp in post[len(pre):]] for post in posts]), limit=3)

        elif kind == 'quant':
            ks = (0, 1, 2, 3) if tier == 'thorough' else (0, 1, 2)
            for k in ks:
                consts = (a, b, c)[:k]
                tabx, pre, posts = run_isolated(name, [rule_cls], s, d, desig, consts, ())
                dom = list(consts) or [a]
                def interps():
                    for vals in product(V, repeat=len(dom)):
                        preds = {(0, F, (e,)): v for e, v in zip(dom, vals)}
                        I = rsem.Interp(S, worlds=(0,), R={0: {0}}, domain=dom, preds=preds)
                        yield I, {syn.show(syn.papp(F, e)): v for e, v in zip(dom, vals)}
                out.case((name, shape_label, 'quant', k))
                ok = check_equivalence(out, name, S, kind, s, d, rname, f'{k} constants', pre, posts, interps(), 'const')
                for post in posts:
                    for sp in post[len(pre):]:
                        if sp[0] == 'R' or (sp[0] == 'S' and sp[3] != w0):
                            out.violation('world-changed', dict(logic=name, shape=shape_label, rule=rname, node=tabs.show_spec(sp)),
                                          dict(diag='non-modal-expansion-changes-world', rule=rname, family=S.base_name),
                                          f'{name}/{rname}: quantifier expansion of {shape_label} produced {tabs.show_spec(sp)}')
                if not ok:
                    break

        else:  # modal
            tabx, pre, posts = run_isolated(name, [rule_cls], s, d, desig, (), ())
            pre_worlds = {w for sp in pre for w in spec_worlds(sp)}
            introduces = any(set(spec_worlds(sp)) - pre_worlds for post in posts for sp in post[len(pre):])
            if introduces:
                m = 3 if tier == 'thorough' else 2
                def interps():
                    for ws, R in frames_upto(S, m):
                        for vals in product(V, repeat=len(ws)):
                            I = rsem.Interp(S, worlds=ws, R=R, atoms={(w, A): v for w, v in zip(ws, vals)})
                            yield I, dict(R=sorted((i, j) for i in R for j in R[i]), A=dict(zip(ws, vals)))
                out.case((name, shape_label, 'modal-witness'))
                check_equivalence(out, name, S, kind, s, d, rname, 'bare', pre, posts, interps(), 'world')
            else:
                ctxs = [((0, 1),), ((0, 1), (0, 2)), ()]
                if tier == 'thorough':
                    ctxs += [((0, 1), (1, 2)), ((0, 1), (1, 0))]
                for actx in ctxs:
                    if S.frame == 'serial' and not actx:
                        continue
                    tabx, pre, posts = run_isolated(name, [rule_cls, *access], s, d, desig, (), actx)
                    ws = sorted({w for post in posts for sp in post for w in spec_worlds(sp)} | {0})
                    Rs = []
                    for post in posts:
                        R = {w: set() for w in ws}
                        for sp in post:
                            if sp[0] == 'R':
                                R[sp[1]].add(sp[2])
                        Rs.append(R)
                    R = Rs[0]
                    if any(r != R for r in Rs):
                        out.note(f'{name}/{rname}: branches of one expansion carry different access pairs')
                    if S.frame == 'serial':
                        for w in ws:
                            if not R[w] and w != 0:
                                R[w].add(w)
                    out.case((name, shape_label, 'modal-canonical', actx))
                    if not S.frame_ok(R, ws):
                        out.violation('canonical-frame', dict(logic=name, shape=shape_label, context=list(actx),
                                                               R=sorted((i, j) for i in R for j in R[i])),
                                      dict(diag='access-rules-incomplete-closure', frame=S.frame, family=S.base_name),
                                      f'{name}: access pairs after expansion {sorted((i, j) for i in R for j in R[i])} '
                                      f'violate frame condition {S.frame}')
                        continue
                    def interps():
                        for vals in product(V, repeat=len(ws)):
                            I = rsem.Interp(S, worlds=ws, R=R, atoms={(w, A): v for w, v in zip(ws, vals)})
                            yield I, dict(R=sorted((i, j) for i in R for j in R[i]), A=dict(zip(ws, vals)))
                    if not check_equivalence(out, name, S, kind, s, d, rname, f'access {list(actx)}', pre, posts, interps(), None):
                        break


def closure_of(S, pairs, worlds):
    return S.closure(pairs, worlds)


def run_frames(name, out, tier, seed):
    S = rsem.sem(name)
    desig = tabs.uses_designation(name)
    ws = (0, 1, 2)
    allpairs = [(i, j) for i in ws for j in ws]
    full = S.classical or tier == 'thorough'
    idx = 0
    for bits in product((0, 1), repeat=9):
        idx += 1
        if not full and (idx + seed) % 4:
            continue
        pairs = [p for p, bit in zip(allpairs, bits) if bit]
        # which worlds carry a sentence: all of them (as in a real proof), none (access nodes only), only world 0
        carriers_list = [ws, (), (0,)]
        if S.frame == 'serial':
            carriers_list = [tuple(w for w, bit in zip(ws, cb) if bit) for cb in product((0, 1), repeat=3)]
        for carriers in carriers_list:
            tab = tabs.new_tableau(name, max_steps=300)
            br = tab.branch()
            for w in carriers:
                br.append(tabs.mk_node(('S', syn.atom(w), True if desig else None, w)))
            for p in pairs:
                br.append(tabs.mk_node(('R',) + p))
            tab.build()
            out.case((name, 'frame', tuple(pairs), carriers))
            out.count('frame_cases')
            if tab.premature or len(tab) != 1 or len(tab.open) != 1:
                out.violation('frame-build', dict(logic=name, pairs=pairs, carriers=list(carriers)),
                              dict(diag='frame-build-abnormal', frame=S.frame, family=S.base_name,
                                   premature=bool(tab.premature), branches=len(tab)),
                              f'{name}: frame build ended premature={tab.premature} branches={len(tab)} open={len(tab.open)}')
                continue
            final = sorted({(sp[1], sp[2]) for sp in tabs.branch_specs(tab[0]) if sp[0] == 'R'})
            present = sorted(set(carriers) | {w for p in pairs for w in p})
            if S.frame == 'serial':
                R = {}
                for i, j in final:
                    R.setdefault(i, set()).add(j)
                bad = [w for w in carriers if not R.get(w)]
                lost = [p for p in pairs if p not in final]
                # a successor the rule introduces is a witness: it must be a world that was not on the branch
                stale = [p for p in final if p not in pairs and p[1] in present]
                if stale and not (bad or lost):
                    out.violation('frame-closure', dict(logic=name, pairs=pairs, carriers=list(carriers), final=final),
                                  dict(diag='serial-successor-not-a-new-world', frame=S.frame, family=S.base_name),
                                  f'{name}: worlds {present} with access {pairs}: the serial rule added {stale}, whose target '
                                  f'was already on the branch (only a serial model that happens to have that pair satisfies it)')
                    continue
                if bad or lost:
                    out.violation('frame-closure', dict(logic=name, pairs=pairs, carriers=list(carriers), final=final),
                                  dict(diag='serial-successor-missing' if bad else 'access-pair-lost', frame=S.frame,
                                       family=S.base_name),
                                  f'{name}: after build worlds {bad} carrying a sentence have no successor; final={final}')
                continue
            want = sorted((i, j) for i, js in S.closure(pairs, present).items() for j in js)
            if final != want:
                out.violation('frame-closure', dict(logic=name, pairs=pairs, final=final, expected=want),
                              dict(diag='closure-too-small' if set(final) < set(want) else 'closure-wrong',
                                   frame=S.frame, family=S.base_name),
                              f'{name}: access pairs {pairs} built to {final}, required closure {want}')
            elif idx % 97 == 0:
                out.sample(dict(logic=name, pairs=pairs, final=final), limit=2)


# ----------------------------------------------------------------- in situ: the world discipline inside real proofs

INSITU_N = dict(quick=60, thorough=600)


def check_world_discipline(name, S, arg, tab, out, case):
    """Every sentence node a step added at a world other than its target node's world must (a) come from a modal
    target and (b) sit at a world the target's world sees ON THAT BRANCH (access node present no later than the step).
    A fresh-branch check cannot see a rule that is exact in isolation but reads helper state shared with a sibling."""
    from ..trace import _node_steps
    trunk_len = len(arg[0]) + 1
    seen = set()
    for bi, b in enumerate(tab):
        access = {}
        for n in b:
            if n.get('world1') is not None and n.get('world2') is not None:
                sa, _ = _node_steps(tab, b, n)
                access.setdefault((int(n['world1']), int(n['world2'])), sa if sa is not None else 0)
        for idx, n in enumerate(b):
            if idx < trunk_len or n.get('sentence') is None:
                continue
            if n.get('world') is None:
                # a sentence node without a world in a modal proof: added by a step whose target had one?
                sa0, _ = _node_steps(tab, b, n)
                if sa0 is not None and 1 <= sa0 <= len(tab.history):
                    e0 = tab.history[sa0 - 1]
                    tn0 = e0.target.get('node')
                    if tn0 is not None and tn0.get('world') is not None:
                        out.violation('insitu-world-discipline',
                                      dict(case, rule=e0.rule.name, step=sa0, branch=bi, target=tabs.show_spec(tabs.node_spec(tn0)),
                                           added=tabs.show_spec(tabs.node_spec(n))),
                                      dict(diag='expansion-lost-its-world', rule=e0.rule.name, family=S.base_name),
                                      f'{name}: {gen.show_arg(arg)}: step {sa0} ({e0.rule.name}) on {tabs.show_spec(tabs.node_spec(tn0))} added '
                                      f'the world-less node {tabs.show_spec(tabs.node_spec(n))}', size=gen.arg_size(arg))
                        return
                continue
            if (id(n), bi) in seen:
                continue
            seen.add((id(n), bi))
            sa, _ = _node_steps(tab, b, n)
            # current_step = rule applications so far + 1 once the trunk is built: step k is history[k - 1]
            if sa is None or not (1 <= sa <= len(tab.history)):
                continue
            e = tab.history[sa - 1]
            tn = e.target.get('node')
            if tn is None or tn.get('world') is None or tn.get('sentence') is None:
                continue
            w1, w2 = int(tn['world']), int(n['world'])
            out.count('insitu_added_nodes_checked')
            if w1 == w2:
                continue
            out.count('insitu_cross_world_additions')
            ts = syn.from_lib(tn['sentence'])
            core = ts[2][0] if (ts[0] == 'O' and ts[1] == 'Negation') else ts
            is_modal = core[0] == 'O' and core[1] in syn.MODAL
            diag = None
            if not is_modal:
                diag = 'non-modal-expansion-left-its-world'
            elif (w1, w2) not in access or access[(w1, w2)] > sa:
                diag = 'modal-instance-at-a-world-not-accessible-on-this-branch'
            if diag:
                out.violation('insitu-world-discipline',
                              dict(case, rule=e.rule.name, step=sa, branch=bi, target=tabs.show_spec(tabs.node_spec(tn)),
                                   added=tabs.show_spec(tabs.node_spec(n)),
                                   access_on_branch=sorted(access)),
                              dict(diag=diag, rule=e.rule.name, family=S.base_name),
                              f'{name}: {gen.show_arg(arg)}: step {sa} ({e.rule.name}) on {tabs.show_spec(tabs.node_spec(tn))} added '
                              f'{tabs.show_spec(tabs.node_spec(n))} on branch {bi} whose access pairs are {sorted(access)}: {diag}',
                              size=gen.arg_size(arg))
                return


def run_insitu(name, out, tier, seed):
    import random
    from .. import workload, proofcheck as pc
    S = rsem.sem(name)
    desig = tabs.uses_designation(name)
    rng = random.Random(f'{seed}:{name}:insitu')
    cases = list(workload.cases(name, desig, rng, n_random=INSITU_N[tier], with_examples=(tier == 'thorough')))
    cases = [c for c in cases if c[1] in ('hostile', 'example') or 'modal' in c[1] or rng.random() < 0.3]
    for i, (label, frag, arg) in enumerate(cases):
        cfg, driver, order = workload.config_cycle(i, seed)
        r = pc.run_cfg(name, arg, cfg, driver, order, tier)
        out.count('insitu_runs')
        out.case((name, 'insitu', gen.arg_key(arg)))
        if r.outcome == 'ERROR' or r.tab is None:
            continue
        check_world_discipline(name, S, arg, r.tab, out,
                               dict(logic=name, argument=gen.arg_to_json(arg), label=label, **pc.cfg_json(cfg, driver, order)))


def run_unit(unit, out, tier, seed):
    name = unit['logic']
    if name not in lib.logic_names():
        out.note(f'logic {name} no longer registered')
        return
    out.cover('logics', name)
    if unit['kind'] == 'rules':
        out.count('logics')
        run_rules(name, out, tier)
    elif unit['kind'] == 'insitu':
        run_insitu(name, out, tier, seed)
    else:
        run_frames(name, out, tier, seed)


def replay(wit):
    from ..worker import Out
    out = Out()
    c = wit['case']
    if wit['kind'] == 'insitu-world-discipline':
        from .. import proofcheck as pc
        r = pc.run_cfg(c['logic'], gen.arg_from_json(c['argument']), c['cfg'], c['driver'], c['order'], 'thorough')
        check_world_discipline(c['logic'], rsem.sem(c['logic']), gen.arg_from_json(c['argument']), r.tab, out, dict(logic=c['logic']))
        return dict(violates=bool(out.violations), detail=[v['message'] for v in out.violations][:3])
    kind = 'frames' if wit['kind'].startswith('frame') else 'rules'
    run_unit(dict(logic=c['logic'], kind=kind), out, 'thorough', 0)
    same = [v for v in out.violations if v['kind'] == wit['kind'] and v['diagnosis'] == wit['diagnosis']]
    return dict(violates=bool(same), detail=[v['message'] for v in same][:3])
