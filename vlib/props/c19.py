"""C19 - every finished tableau renders, deterministically and faithfully."""
from __future__ import annotations

import random
import re
import traceback

from .. import gen, lib, proofcheck as pc, runs, tabs, workload
from ..ref import sem as rsem, syn
from ..worker import CaseTimeout, watchdog

ID = 'C19'
META = dict(
    level='exploration',
    exhaustive=False,
    rule=('per logic: finished tableaux with a tree from (a) the shared proof workload (hostile, rule-directed, random, named '
          'examples in thorough; all fragments) run to completion under a rotating (optimisation, driver, order) configuration, '
          'sometimes with models, (b) the same arguments cut off by max_steps in 1..5 (premature), (c) quantifier / modal nests that '
          'end with quit-flag nodes, (d) the documentation tableaux: one rule-example tableau per rule of the logic and the trunk '
          'example, both built with EllipsisExampleHelper exactly as doc/pytabdoc does (ellipsis nodes). Every tableau is rendered '
          'by a rotating selection of writer configurations ENUMERATED FROM THE LIVE API: registry formats x Notation members x '
          '{no dialect, every dialect in Notation.formats[format]} x construction form (positional, keyword, explicit lw=LexWriter, '
          'explicit StringTable, registry class, bare TabWriter()) x every option of the writer class defaults (bools flipped, '
          'sequences filled, all at once) x every LexWriter default option of the notation x call-time keywords of __call__/build_doc; '
          'at least one configuration of every registered format per tableau. Each selected configuration renders the tableau twice '
          'with one writer instance and once with a fresh instance; the three strings must be equal. '
          'TEXT ORACLE (format "text", necessary conditions): tokens come from the branch nodes with the writer\'s own LexWriter '
          'instance: sentence node = lw(sentence), then in any order "w<world>" (not followed by a digit) and a designation mark '
          '(the template literal [+]/[-] or the string-table entry); access node = "w<i>", access symbol, "w<j>" in that order; '
          'closure mark = the template literal (x) or the string-table entry; ellipsis / quit-flag nodes have no required token. '
          'The text is mapped to the tree by its layout (one line per structure in depth-first pre-order, non-root lines '
          '"<prefix of blanks and |>-- ...", separator lines of blanks and | only; the parent computed from the indentation must equal the '
          'tree parent). Then (1) closure marks in the whole text (occurrences inside sentence renderings subtracted) == number of closed '
          'branches; (2) for every branch (leaf.branch_id) the token sequence of list(branch) embeds IN ORDER into the lines of its '
          'root-to-leaf path (earliest-match embedding = existence of an embedding), and these lines carry exactly one closure mark if the '
          'branch is closed, none if open - a branch that fails on its mapped path but fits another root-to-leaf path of the text '
          'is NOT reported (sibling order is not part of the statement; counted text_branches_on_other_path, inconclusive); '
          '(3) where a structure line splits into exactly len(structure.nodes) segments at "; " / closure '
          'marks, the k-th segment must contain the tokens of the k-th node (otherwise (3) is not applied). If the layout is not recognised '
          'only the weaker form is decided: (1) plus every branch embeds into the whole text; such a case is otherwise inconclusive. '
          'non-trivial = distinct (logic, tableau source, writer configuration) whose tableau has >= 2 nodes.'),
    assumptions=['the jinja text writer emits one line per tree structure, depth-first in tree order, children after their parent, '
                 'prefix length = sum of the ancestors\' line bodies (read from jinja.py _write_structure); checked per rendering, '
                 'a rendering that does not fit is decided by the weaker whole-text rule and counted layout_unrecognised',
                 'Tableau.tree leaves map to branches by branch_id (the tree itself is C16\'s subject)',
                 'sentence renderings contain neither "; " nor a newline',
                 'html output embeds id(...) of tableau/structure/node objects: equality is only required between renderings of the '
                 'SAME tableau object',
                 'the unregistered (WIP) doctree TextTabWriter is outside the quantifier (registered formats only)'],
    min_events={'quick': {'renderings': 60000, 'tableaux': 3500, 'tableaux_valid': 200, 'tableaux_invalid': 1000,
                          'tableaux_premature': 1800, 'determinism_checks': 40000, 'text_oracle_checks': 7000,
                          'text_branches_checked': 15000, 'text_segments_checked': 60000, 'closed_branch_marks': 4000,
                          'open_branches_without_mark': 10000,
                          'nodes_sentence': 25000, 'nodes_world': 18000, 'nodes_designation': 22000, 'nodes_access': 1900,
                          'nodes_closure': 1900, 'nodes_quit': 150, 'nodes_ellipsis': 1600, 'logics': 52},
                'thorough': {'renderings': 500000, 'tableaux': 30000, 'tableaux_valid': 5000, 'tableaux_invalid': 15000,
                             'tableaux_premature': 6000, 'determinism_checks': 350000, 'text_oracle_checks': 60000,
                             'text_branches_checked': 250000, 'text_segments_checked': 1000000, 'closed_branch_marks': 100000,
                             'open_branches_without_mark': 120000,
                             'nodes_sentence': 450000, 'nodes_world': 350000, 'nodes_designation': 450000,
                             'nodes_access': 25000, 'nodes_closure': 55000, 'nodes_quit': 1000, 'nodes_ellipsis': 2500, 'logics': 52}},
    budget=dict(quick=1500, thorough=7200),
    unit_timeout=dict(quick=400, thorough=2400),
)

NARGS = dict(quick=32, thorough=None)          # arguments per logic (None: all generated)
NRANDOM = dict(quick=30, thorough=270)
RULE_ROUNDS = dict(quick=1, thorough=2)
CAP = dict(quick=120, thorough=300)
SPLIT = dict(quick=1, thorough=4)
PER_FORMAT = dict(quick=2, thorough=2)         # writer configurations per registered format and tableau
SEQ_FILL = ('c19-a', 'c19-b')
RENDER_WATCHDOG = 60                            # s of wall per rendering; firing = inconclusive case


def units(tier, seed):
    def parts(n):
        return SPLIT[tier] * (2 if tier == 'thorough' and 'K3W' in n else 1)   # the weak-Kleene families build the largest trees
    us = [dict(name=f'render:{n}:{k}', logic=n, part=k, parts=parts(n)) for n in lib.STATIC_LOGICS for k in range(parts(n))]
    us.sort(key=lambda u: ('K3W' not in u['logic'], 'Q' not in u['logic']))      # longest units first (stable)
    return us


# ------------------------------------------------------------------ writer configurations

def writer_configs():
    """Every way the API offers to obtain a tableau writer, as JSON-able dicts."""
    import inspect
    from pytableaux.lang import Notation
    from pytableaux.proof import writers

    cfgs = []

    def add(fmt, notn, via='args', dialect=None, opts=None, lwopts=None, call=None):
        cfgs.append(dict(format=fmt, notation=notn, via=via, dialect=dialect, opts=opts or {}, lwopts=lwopts or {},
                         call=call or {}))

    for fmt in sorted(writers.registry):
        cls = writers.registry[fmt]
        defaults = dict(cls.defaults)
        flips = {}
        for k, v in defaults.items():
            if isinstance(v, bool):
                flips[k] = not v
            elif isinstance(v, (tuple, list)):
                flips[k] = list(SEQ_FILL)
        callkw = {}
        try:
            names = [p.name for p in inspect.signature(cls.__call__).parameters.values() if p.kind is p.KEYWORD_ONLY]
            if any(p.kind is p.VAR_KEYWORD for p in inspect.signature(cls.__call__).parameters.values()) and hasattr(cls, 'build_doc'):
                names += [p.name for p in inspect.signature(cls.build_doc).parameters.values() if p.kind is p.KEYWORD_ONLY]
        except (TypeError, ValueError):
            names = []
        for n in names:
            if isinstance(defaults.get(n), bool):
                callkw[n] = not defaults[n]
            elif isinstance(defaults.get(n), (tuple, list)):
                callkw[n] = ['c19-call']
        for notn in Notation:
            nn = notn.name
            dialects = sorted(notn.formats.get(fmt, ()))
            add(fmt, nn)
            add(fmt, nn, via='kwargs')
            add(fmt, nn, via='class')
            for d in dialects:
                add(fmt, nn, dialect=d)
                add(fmt, nn, via='lw', dialect=d)
                add(fmt, nn, via='strings', dialect=d)
            for k, v in flips.items():
                add(fmt, nn, opts={k: v})
            if len(flips) > 1:
                add(fmt, nn, opts=dict(flips), dialect=dialects[-1] if dialects else None)
            if callkw:
                add(fmt, nn, call=dict(callkw))
                for k, v in callkw.items():
                    if len(callkw) > 1:
                        add(fmt, nn, call={k: v})
            lwdef = dict(getattr(notn.DefaultWriter, 'defaults', {}) or {})
            for k, v in lwdef.items():
                nv = (not v) if isinstance(v, bool) else 3 if isinstance(v, int) else None
                if nv is None:
                    continue
                add(fmt, nn, opts={k: nv}, dialect=dialects[-1] if dialects else None)
                add(fmt, nn, via='lw', lwopts={k: nv}, dialect=dialects[0] if dialects else None)
            if len(lwdef) > 1:
                allv = {k: ((not v) if isinstance(v, bool) else 3) for k, v in lwdef.items() if isinstance(v, (bool, int))}
                add(fmt, nn, opts=allv)
    dcls = writers.registry.default
    if dcls is not None:
        cfgs.append(dict(format=getattr(dcls, 'format', '?'), notation=None, via='default', dialect=None, opts={}, lwopts={},
                         call={}))
    return cfgs


def cfg_label(cfg):
    bits = [cfg['format'], str(cfg['notation']), cfg['via']]
    if cfg.get('dialect'):
        bits.append('d=' + cfg['dialect'])
    for key in ('opts', 'lwopts', 'call'):
        if cfg.get(key):
            bits.append(key + '=' + ','.join(f'{k}:{v}' for k, v in sorted(cfg[key].items())))
    return '/'.join(bits)


def make_writer(cfg):
    from pytableaux.lang import LexWriter, Notation, StringTable
    from pytableaux.proof import TabWriter, writers
    fmt, notn, via = cfg['format'], cfg['notation'], cfg['via']
    kw = dict(cfg.get('opts') or {})
    if via == 'default':
        return TabWriter()
    if via == 'lw':
        lw = LexWriter(notation=notn, format=fmt, dialect=cfg.get('dialect'), **(cfg.get('lwopts') or {}))
        return TabWriter(fmt, lw=lw, **kw)
    if via == 'strings':
        st = StringTable.fetch(fmt, Notation[notn], cfg.get('dialect'))
        return TabWriter(fmt, notn, st, **kw)
    if cfg.get('dialect'):
        kw['dialect'] = cfg['dialect']
    if via == 'kwargs':
        return TabWriter(format=fmt, notation=notn, **kw)
    if via == 'class':
        return writers.registry[fmt](notn, **kw)
    return TabWriter(fmt, notn, **kw)


def cfg_diag(cfg, writer=None):
    """The mechanism-level part of a writer configuration (violations are grouped by it): format, notation and
    the RESOLVED dialect; construction form and option names stay in the case."""
    d = cfg.get('dialect')
    if writer is not None:
        try:
            d = writer.lw.dialect
        except Exception:
            pass
    return dict(format=cfg['format'], notation=cfg['notation'], dialect=d)


# ------------------------------------------------------------------ tableaux

def extra_arguments(S):
    "Arguments whose proofs end with quit-flag nodes where the logic has the tracker (nests)."
    A, B = gen.ATOMS[:2]
    x, y = gen.VARS[:2]
    H2 = syn.pred(2, 0, 2)
    F1 = syn.pred(0, 0, 1)
    q, op, neg = syn.quant, syn.op, syn.neg
    out = []
    if S.quantified:
        nest = q('Universal', x, q('Existential', y, syn.papp(H2, x, y)))
        out.append(('nest:quant', ((nest,), B)))
        out.append(('nest:quant:2', ((nest, q('Universal', x, neg(syn.papp(H2, x, x)))), q('Existential', x, syn.papp(F1, x)))))
    if S.modal:
        out.append(('nest:modal', ((op('Necessity', op('Possibility', A)),), B)))
        out.append(('nest:modal:2', ((op('Necessity', op('Possibility', A)), op('Possibility', neg(B))),
                                     op('Possibility', op('Necessity', A)))))
    if S.modal and S.quantified:
        a_, b_ = gen.CONSTS[:2]
        idab = syn.papp(syn.IDENTITY, a_, b_)
        # identity directly under unary operators, beside the plain and the negated identity
        out.append(('id-under-unary:1', ((op('Necessity', idab),), idab)))
        out.append(('id-under-unary:2', ((op('Possibility', idab), neg(idab)), op('Necessity', neg(idab)))))
        out.append(('id-under-unary:3', ((op('Assertion', idab), neg(idab)), op('Possibility', idab))))
        out.append(('nest:fomodal', ((op('Necessity', q('Existential', x, op('Possibility', syn.papp(F1, x)))),), B)))
    return out


def rule_names(name):
    from pytableaux.proof import Tableau
    return [r.name for r in Tableau(lib.logic(name)).rules]


def build_tab(case, arg=None):
    """The tableau of a case (dict, JSON-able). Returns (tab, error-dict|None)."""
    src = case['source']
    name = case['logic']
    if src == 'argument':
        if arg is None:
            arg = gen.arg_from_json(case['argument'])
        o = case['run']
        r = runs.run(name, arg, driver=o['driver'], order=o['order'], max_steps=o['max_steps'], models=o['models'],
                     **o['cfg'])
        if r.outcome == 'ERROR':
            return None, r.error
        return r.tab, None
    from pytableaux.lang import Argument, Atomic
    from pytableaux.proof import Tableau, helpers, rules
    lib.set_order(case.get('order', 0))
    try:
        if src == 'rule-example':
            # doc/pytabdoc/directives.py: gettab_rule + run() in rule mode
            tab = Tableau(lib.logic(name))
            rulecls = type(tab.rules.get(case['rule']))
            tab.rules.clear()
            tab.rules.append(rulecls)
            rule = tab.rules[0]
            rule.helpers[helpers.EllipsisExampleHelper] = helpers.EllipsisExampleHelper(rule)
            tab.branch().extend(rule.example_nodes())
            if case.get('mode') == 'build':
                tab.build()
            else:
                tab.step()
                tab.finish()
            return tab, None
        if src == 'trunk-example':
            # doc/pytabdoc/directives.py: gettab_trunk + build()
            stub = type('TrunkRuleStub', (rules.NoopRule,), dict(Helpers=(helpers.EllipsisExampleHelper,)))
            targ = Argument(Atomic(1, 0), map(Atomic, ((0, 1), (0, 2))))
            tab = Tableau(lib.logic(name), targ, auto_build_trunk=False)
            tab.rules.clear()
            tab.rules.append(stub)
            tab.build_trunk()
            tab.build()
            return tab, None
    except Exception as e:
        return None, dict(type=type(e).__name__, msg=str(e)[:200], site=_site(e))
    raise ValueError(src)


def tab_kind(tab):
    if tab.premature:
        return 'premature'
    if tab.valid:
        return 'valid'
    if tab.invalid:
        return 'invalid'
    return 'other'


def _site(e):
    tb = traceback.extract_tb(e.__traceback__)
    return next((f'{f.filename.split("pytableaux/")[-1]}:{f.name}' for f in reversed(tb) if 'pytableaux' in f.filename), '?')


# ------------------------------------------------------------------ the text oracle

class _Alt:
    "One required token: any of several literal strings / patterns, found at the earliest position."
    __slots__ = ('kind', 'pats')

    def __init__(self, kind, pats):
        self.kind = kind
        self.pats = pats

    def find(self, text, pos):
        best = None
        for p in self.pats:
            if isinstance(p, str):
                i = text.find(p, pos)
                if i >= 0 and (best is None or i + len(p) < best):
                    best = i + len(p)
            else:
                m = p.search(text, pos)
                if m and (best is None or m.end() < best):
                    best = m.end()
        return best


def _wtok(w):
    return re.compile(r'w%d(?!\d)' % int(w))


def marks_of(writer):
    "Marker alternatives: what the text template writes literally, or the writer's string-table entry."
    from pytableaux.lang import Marking
    st = writer.lw.strings

    def alts(key, literal):
        out = [literal]
        try:
            v = st[key]
        except (KeyError, TypeError):
            v = None
        if isinstance(v, str) and v and v not in out:
            out.append(v)
        return out
    return dict(closure=alts((Marking.tableau, 'flag', 'closure'), '(x)'),
                desig={True: alts((Marking.tableau, 'designation', True), '[+]'),
                       False: alts((Marking.tableau, 'designation', False), '[-]')},
                access=alts((Marking.tableau, 'access'), 'R'))


def node_tokens(node, lw, marks):
    """(kind, steps, sentence-string|None). steps: list of groups; the members of a group
    may occur in any order after the previous group."""
    flag = node.get('flag')
    if flag is not None:
        return ('closure' if flag == 'closure' else 'quit' if flag == 'quit' else 'flag'), [], None
    w1, w2 = node.get('world1'), node.get('world2')
    if w1 is not None and w2 is not None:
        return 'access', [[_Alt('access', [_wtok(w1)])], [_Alt('access', marks['access'])], [_Alt('access', [_wtok(w2)])]], None
    s = node.get('sentence')
    if s is not None:
        S = lw(s)
        grp = []
        if node.get('world') is not None:
            grp.append(_Alt('world', [_wtok(node['world'])]))
        if node.get('designated') is not None:
            grp.append(_Alt('designation', marks['desig'][bool(node['designated'])]))
        return 'sentence', [[_Alt('sentence', [S])]] + ([grp] if grp else []), S
    if node.get('ellipsis'):
        return 'ellipsis', [], None
    return 'unknown', [], None


def embed(text, toks):
    """Earliest-match embedding of the token steps of the nodes (in order) into text.
    Returns None or (index of the failing node, token kind)."""
    cur = 0
    for i, (_, steps, _) in enumerate(toks):
        for group in steps:
            ends = []
            for alt in group:
                e = alt.find(text, cur)
                if e is None:
                    return i, alt.kind
                ends.append(e)
            cur = max(ends)
    return None


def diagnose_embed(text, toks, seg):
    """Only for the DIAGNOSIS of a failed embedding (never decides): walk the nodes, look for a node's markers
    inside the window that ends at the next node terminator / line end after its first token, and name the first
    token that is not there. Returns None or (node index, token kind)."""
    cur = 0
    for i, (_, steps, _) in enumerate(toks):
        if not steps:
            continue
        first = steps[0][0]
        e = first.find(text, cur)
        if e is None:
            return i, first.kind
        m = seg.search(text, e)
        wend = m.end() if m else len(text)
        nl = text.find('\n', e)
        if 0 <= nl < wend:
            wend = nl
        window = text[:wend]
        c2 = e
        for group in steps[1:]:
            ends = []
            for alt in group:
                x = alt.find(window, c2)
                if x is None:
                    return i, alt.kind
                ends.append(x)
            c2 = max(ends)
        cur = c2
    return None


def parse_layout(text):
    "[(indent, body)] of the structure lines, or None if a line fits neither pattern."
    out = []
    for i, ln in enumerate(text.split('\n')):
        if i == 0:
            out.append((0, ln))
            continue
        m = re.match(r'^([ |]*)(-- .*)$', ln)
        if m:
            out.append((len(m.group(1)), m.group(2)))
        elif ln.strip(' |') == '':
            continue
        else:
            return None
    return out


def tree_preorder(tree):
    "[(structure, parent index)] depth-first, children in order."
    out = []
    stack = [(tree, -1)]
    while stack:
        s, p = stack.pop()
        i = len(out)
        out.append((s, p))
        for c in reversed(list(s.children)):
            stack.append((c, i))
    return out


def layout_parents(lines):
    "Parent index of every structure line from the indentation alone (None: inconsistent)."
    parents = []
    stack = []   # indices of the open ancestors
    for k, (indent, body) in enumerate(lines):
        if k == 0:
            parents.append(-1)
            stack = [0]
            continue
        while stack:
            pi, pb = lines[stack[-1]]
            if pi + max(len(pb) - 1, 0) + 1 == indent:
                break
            stack.pop()
        if not stack:
            return None
        parents.append(stack[-1])
        stack.append(k)
    return parents


def expected_lw(cfg, writer):
    """The lexical writer the CONFIGURATION calls for, constructed independently of the tableau writer: the notation's
    writer for the resolved format/dialect with the lexical-writer options the caller passed to TabWriter. (Reading
    them back from ``writer.lw`` would make the oracle blind to options the tableau writer drops on the way.)"""
    from pytableaux.lang import LexWriter, Notation
    if cfg.get('via') in ('lw', 'default') or not cfg.get('notation'):
        return writer.lw
    try:
        lwdef = dict(getattr(Notation[cfg['notation']].DefaultWriter, 'defaults', {}) or {})
        lwopts = {k: v for k, v in (cfg.get('opts') or {}).items() if k in lwdef}
        if not lwopts:
            return writer.lw
        return LexWriter(notation=cfg['notation'], format=writer.lw.format, dialect=writer.lw.dialect, **lwopts)
    except Exception:
        return writer.lw


def text_oracle(tab, writer, text, out=None, lw=None):
    """Problems of the plain-text rendering: list of dict(clause=..., node_kind=..., node_type=..., detail=...).
    Returns (problems, recognised: bool)."""
    lw = lw or writer.lw
    marks = marks_of(writer)
    cmarks = marks['closure']
    problems = []
    cache = {}

    def toks(node):
        t = cache.get(id(node))
        if t is None:
            t = cache[id(node)] = node_tokens(node, lw, marks)
        return t

    def nmarks(s):
        return sum(s.count(m) for m in cmarks)

    # distinct sentences on the tableau must have distinct written forms (otherwise the rendering cannot be the
    # written form of both)
    forms = {}
    for b in tab:
        for n in b:
            sn = n.get('sentence')
            if sn is None:
                continue
            try:
                w = lw(sn)
            except Exception:
                continue
            other = forms.setdefault(w, sn)
            if other != sn:
                problems.append(dict(clause='distinct-sentences-same-written-form', node_kind='sentence',
                                     node_type=type(n).__name__,
                                     detail=dict(written=w, first=repr(other), second=repr(sn))))
                forms = None
                break
        if forms is None:
            break

    order = tree_preorder(tab.tree)
    branches = list(tab)
    closed_expected = sum(1 for b in branches if b.closed)
    # (1) global closure-mark count
    in_sentences = 0
    for s, _ in order:
        for node in s.nodes:
            S = toks(node)[2]
            if S:
                in_sentences += nmarks(S)
    found = nmarks(text) - in_sentences
    if out is not None:
        out.count('closed_branch_marks', closed_expected)
    if found != closed_expected:
        problems.append(dict(clause='closure-mark-count', node_kind='closure', node_type='ClosureNode',
                             detail=dict(marks=found, closed_branches=closed_expected, relation='more' if found > closed_expected else 'fewer')))

    lines = parse_layout(text)
    byid = {b.id: b for b in branches}
    leaves = [(k, s) for k, (s, _) in enumerate(order) if not s.children]
    ok = (lines is not None and len(lines) == len(order))
    if ok:
        par = layout_parents(lines)
        ok = par is not None and par == [p for _, p in order]
    if ok:
        ok = len(leaves) == len(branches) and all(s.branch_id in byid for _, s in leaves)
    if not ok:
        # weaker rule: every branch embeds into the whole text
        for b in branches:
            bad = embed(text, [toks(n) for n in b])
            if bad is not None:
                node = b[bad[0]]
                problems.append(dict(clause='branch-tokens-missing', node_kind=bad[1], node_type=type(node).__name__,
                                     detail=dict(scope='whole-text', node=tabs.show_spec(tabs.node_spec(node)))))
                break
        return problems, False

    # per-line adjusted closure marks
    adj = []
    for (indent, body), (s, _) in zip(lines, order):
        adj.append(nmarks(body) - sum(nmarks(toks(n)[2]) for n in s.nodes if toks(n)[2]))
    seg = re.compile('(?:; |' + '|'.join(re.escape(m) for m in cmarks) + ')')
    # (2) branch by branch
    seen = set()
    leafpaths = {}
    for k, leaf in leaves:
        path = []
        j = k
        while j >= 0:
            path.append(j)
            j = order[j][1]
        path.reverse()
        leafpaths[k] = ('\n'.join(lines[j][1] for j in path), sum(adj[j] for j in path))
    relocated = 0
    for k, leaf in leaves:
        b = byid[leaf.branch_id]
        btoks = [toks(n) for n in b]
        want = 1 if b.closed else 0
        ptext, pm = leafpaths[k]
        bad = embed(ptext, btoks)
        if out is not None:
            out.count('text_branches_checked')
        if bad is not None or pm != want:
            # sibling order is not part of the statement: the branch may sit on another root-to-leaf path of the text
            if any(k2 != k and m2 == want and embed(t2, btoks) is None for k2, (t2, m2) in leafpaths.items()):
                relocated += 1
                continue
        if bad is not None:
            bad = diagnose_embed(ptext, btoks, seg) or bad
        if bad is not None and ('tok', bad[1]) not in seen:
            seen.add(('tok', bad[1]))
            node = b[bad[0]]
            problems.append(dict(clause='branch-tokens-missing', node_kind=bad[1], node_type=type(node).__name__,
                                 detail=dict(scope='path', node=tabs.show_spec(tabs.node_spec(node)), position=bad[0],
                                             path_text=ptext[:300])))
        if b.closed:
            if pm != 1 and 'closed' not in seen:
                seen.add('closed')
                problems.append(dict(clause='closed-branch-mark-count', node_kind='closure', node_type='ClosureNode',
                                     detail=dict(marks_on_path=pm, path_text=ptext[:300])))
        else:
            if out is not None:
                out.count('open_branches_without_mark', 1 if pm == 0 else 0)
            if pm != 0 and 'open' not in seen:
                seen.add('open')
                problems.append(dict(clause='closure-mark-on-open-branch', node_kind='closure', node_type='ClosureNode',
                                     detail=dict(marks_on_path=pm, path_text=ptext[:300])))
    if relocated:
        if out is not None:
            out.count('text_branches_on_other_path', relocated)
        return problems, False
    # (3) node by node inside a structure line
    for (indent, body), (s, _) in zip(lines, order):
        nodes = list(s.nodes)
        if not nodes:
            continue
        chunks = []
        pos = 0
        # a sentence rendering may contain a closure-mark look-alike: only split outside of them is not
        # decidable here, so segmentation is used only when the counts agree
        for m in seg.finditer(body):
            chunks.append(body[pos:m.end()])
            pos = m.end()
        if len(chunks) != len(nodes):
            if out is not None:
                out.count('text_segmentation_not_applicable')
            continue
        for node, chunk in zip(nodes, chunks):
            t = toks(node)
            if out is not None:
                out.count('text_segments_checked')
            bad = embed(chunk, [t])
            if bad is None and t[0] == 'closure' and nmarks(chunk) < 1:
                bad = (0, 'closure')
            if bad is not None and ('seg', bad[1], type(node).__name__) not in seen:
                seen.add(('seg', bad[1], type(node).__name__))
                problems.append(dict(clause='node-tokens-missing', node_kind=bad[1], node_type=type(node).__name__,
                                     detail=dict(scope='segment', node=tabs.show_spec(tabs.node_spec(node)), segment=chunk[:200])))
    return problems, True


# ------------------------------------------------------------------ determinism

def diff_class(a, b, fmt=None):
    "Mechanism-level description of the first difference of two renderings."
    n = min(len(a), len(b))
    i = next((k for k in range(n) if a[k] != b[k]), n)
    where = 'text'
    if fmt == 'html':
        m = re.search(r'([\w:-]+)="[^"<>]*$', a[:i])
        if m:
            where = 'attr:' + m.group(1)
        elif re.search(r'<[^<>]*$', a[:i]):
            where = 'tag'
    ca, cb = a[i:i + 1], b[i:i + 1]
    if (ca.isdigit() or not ca) and (cb.isdigit() or not cb) and (ca or cb):
        j = i
        while j > 0 and a[j - 1].isdigit():
            j -= 1
        ma = re.match(r'\d+', a[j:])
        token = 'digits' + ('(id-like)' if ma and len(ma.group(0)) >= 9 else '')
    elif i == n:
        token = 'length'
    else:
        token = 'non-digit'
    return dict(where=where, token=token), i


# ------------------------------------------------------------------ one tableau x one writer configuration

def render_check(case, tab, cfg, out, writers_cache=None, size=0):
    """Render ``tab`` under ``cfg`` (twice + fresh instance), decide all clauses. Returns the list of
    diagnoses of the violations it reported."""
    diags = []
    label = cfg_label(cfg)
    wref = []

    def viol(kind, diag, msg, **detail):
        d = dict(cfg_diag(cfg, wref[0] if wref else None), **diag)
        diags.append(d)
        env = pc.env_for(case['run']['order']) if case.get('run') else None
        out.violation(kind, dict(case, writer=cfg, detail=detail), d,
                      f"{case['logic']} {case['source']} {case.get('label') or case.get('rule') or ''} [{label}]: {msg}",
                      size=size, env=env)

    def construct():
        try:
            return make_writer(cfg), None
        except Exception as e:
            return None, e

    w = writers_cache.get(label) if writers_cache is not None else None
    if w is None:
        w, err = construct()
        if err is not None:
            out.count('constructions_raised')
            viol('render', dict(clause='writer-construct-raises', error=type(err).__name__, site=_site(err)),
                 f'constructing the writer raised {type(err).__name__}: {str(err)[:200]}')
            return diags
        if writers_cache is not None:
            writers_cache[label] = w
    wref.append(w)
    out.cover('formats', cfg['format'])
    out.cover('notations', str(cfg['notation']))
    out.cover('dialects', f"{cfg['format']}:{w.lw.dialect}")
    out.cover('writer_classes', type(w).__module__.split('.')[-1] + '.' + type(w).__name__)
    out.cover('construction', cfg['via'])
    for k in list(cfg.get('opts') or ()) + ['lw:' + k for k in (cfg.get('lwopts') or ())] + ['call:' + k for k in (cfg.get('call') or ())]:
        out.cover('options', f"{cfg['format']}:{k}")
    out.cover('writer_configs', label)
    call = dict(cfg.get('call') or {})

    def render(writer):
        try:
            with watchdog(RENDER_WATCHDOG):
                r = writer(tab, **call)
        except Exception as e:
            return None, e
        return r, None

    texts = []
    for which, writer in (('first', w), ('second', w), ('fresh', None)):
        if writer is None:
            writer, err = construct()
            if err is not None:
                viol('render', dict(clause='writer-construct-raises', error=type(err).__name__, site=_site(err)),
                     f'constructing a second writer raised {type(err).__name__}')
                return diags
        try:
            r, err = render(writer)
        except CaseTimeout:
            out.inconc('render-watchdog')
            return diags
        out.count('renderings')
        if err is not None:
            out.count('renderings_raised')
            kinds = sorted({type(n).__name__ for s, _ in tree_preorder(tab.tree) for n in s.nodes})
            viol('render', dict(clause='render-raises', error=type(err).__name__, site=_site(err), rendering=which),
                 f'{which} rendering raised {type(err).__name__}: {str(err)[:300]}', node_types=kinds)
            return diags
        if not isinstance(r, str):
            viol('render', dict(clause='render-returns-non-string', type=type(r).__name__), f'rendering returned {type(r).__name__}')
            return diags
        texts.append(r)
    out.count('determinism_checks', 2)
    for which, other in (('same-writer', texts[1]), ('fresh-writer', texts[2])):
        if other != texts[0]:
            d, i = diff_class(texts[0], other, cfg['format'])
            viol('determinism', dict(clause='nondeterministic', between=which, **d),
                 f'two renderings of the same tableau differ ({which}) at offset {i}: {texts[0][max(0, i - 40):i + 30]!r} vs '
                 f'{other[max(0, i - 40):i + 30]!r}')
            break
    if cfg['format'] == 'text':
        out.count('text_oracle_checks')
        elw = expected_lw(cfg, w)
        if elw is not w.lw:
            out.count('text_oracle_checks_with_independent_lexwriter')
        probs, recognised = text_oracle(tab, w, texts[0], out, lw=elw)
        if not recognised:
            out.count('layout_unrecognised')
            if not probs:
                out.inconc('text-layout-unrecognised')
        for p in probs:
            viol('text', dict(clause=p['clause'], node_kind=p['node_kind'], node_type=p['node_type']),
                 f"{p['clause']} ({p['node_kind']} of {p['node_type']}): {p['detail']}", problem=p['detail'],
                 text=texts[0][:1500])
    return diags


def select_configs(cfgs, t, per_format):
    "The configurations of the t-th tableau: ``per_format`` of each registered format, rotating."
    groups = {}
    for c in cfgs:
        groups.setdefault(c['format'], []).append(c)
    sel = []
    for fmt in sorted(groups):
        g = groups[fmt]
        for j in range(min(per_format, len(g))):
            c = g[(t * per_format + j) % len(g)]
            if c not in sel:
                sel.append(c)
    return sel


def node_stats(tab, out):
    n = 0
    for s, _ in tree_preorder(tab.tree):
        for node in s.nodes:
            n += 1
            flag = node.get('flag')
            if flag is not None:
                out.count('nodes_closure' if flag == 'closure' else 'nodes_quit' if flag == 'quit' else 'nodes_otherflag')
            elif node.get('world1') is not None and node.get('world2') is not None:
                out.count('nodes_access')
            elif node.get('sentence') is not None:
                out.count('nodes_sentence')
                if node.get('world') is not None:
                    out.count('nodes_world')
                if node.get('designated') is not None:
                    out.count('nodes_designation')
                if getattr(node, 'ticked', None):
                    out.count('nodes_ticked')
            elif node.get('ellipsis'):
                out.count('nodes_ellipsis')
            else:
                out.count('nodes_unknown')
            out.cover('node_types', type(node).__name__)
    return n


def check_tab(case, tab, cfgs, out, t, tier, wcache, size=0):
    if tab is None or not tab.finished or tab.tree is None:
        out.count('tableaux_without_tree')
        return
    kind = tab_kind(tab)
    out.count('tableaux')
    out.count('tableaux_' + kind)
    out.cover('tableau_kinds', kind)
    out.cover('sources', case['source'])
    n = node_stats(tab, out)
    if len(tab) > 1:
        out.count('tableaux_branching')
    for cfg in select_configs(cfgs, t, PER_FORMAT[tier]):
        render_check(case, tab, cfg, out, wcache, size=size)
        key = (case['logic'], case['source'], case.get('rule'), case.get('mode'),
               case['argument']['show'] if case.get('argument') else None,
               case.get('run', {}).get('max_steps'), cfg_label(cfg))
        out.case(key, nontrivial=n >= 2)


def cases_for(name, tier, seed, part, parts):
    """Yield (case, arg|None, size) of this unit: arguments (full + premature + nests), documentation tableaux."""
    S = rsem.sem(name)
    desig = tabs.uses_designation(name)
    rng = random.Random(f'{seed}:{name}')
    allc = list(workload.cases(name, desig, rng, n_random=NRANDOM[tier], n_rule_rounds=RULE_ROUNDS[tier],
                               with_examples=(tier == 'thorough')))
    if NARGS[tier] is not None and len(allc) > NARGS[tier]:
        step = len(allc) / NARGS[tier]
        allc = [allc[int(i * step)] for i in range(NARGS[tier])]
    allc = [('extra:' + lab, 'extra', a) for lab, a in extra_arguments(S)] + allc
    for i, (label, frag, arg) in enumerate(allc):
        if i % parts != part:
            continue
        cfg, driver, order = workload.config_cycle(i, seed)
        base = dict(source='argument', logic=name, label=label, argument=gen.arg_to_json(arg))
        run = dict(max_steps=CAP[tier], models=(i % 5 == 2), cfg=cfg, driver=driver, order=order)
        yield dict(base, run=run), arg, gen.arg_size(arg)
        if i % 3 == 0 or label.startswith('extra:'):
            yield dict(base, run=dict(run, max_steps=1 + (i // 3) % 5, models=False)), arg, gen.arg_size(arg)
    if part == 0:
        yield dict(source='trunk-example', logic=name), None, 0
    for j, rn in enumerate(rule_names(name)):
        if j % parts != part:
            continue
        yield dict(source='rule-example', logic=name, rule=rn, mode='step'), None, 0
        if tier == 'thorough' or j % 4 == 0:
            yield dict(source='rule-example', logic=name, rule=rn, mode='build'), None, 0


def run_unit(unit, out, tier, seed):
    name = unit['logic']
    if name not in lib.logic_names():
        out.note(f'logic {name} no longer registered')
        return
    if unit['part'] == 0:
        out.count('logics')
    out.cover('logics', name)
    cfgs = writer_configs()
    out.cover('configs_enumerated', len(cfgs))
    from pytableaux.proof import writers
    for fmt in writers.registry:
        out.cover('formats_registered', fmt)
    wcache = {}
    t = unit['part'] + sum(map(ord, name))
    for case, arg, size in cases_for(name, tier, seed, unit['part'], unit['parts']):
        tab, err = build_tab(case, arg)
        if err is not None:
            out.count('build_errors_left_to_C09')
            continue
        check_tab(case, tab, cfgs, out, t, tier, wcache, size=size)
        if t % 60 == 7:
            out.sample(dict(logic=name, source=case['source'], label=case.get('label') or case.get('rule'),
                            kind=tab_kind(tab) if tab is not None and tab.finished else None,
                            configs=[cfg_label(c) for c in select_configs(cfgs, t, PER_FORMAT[tier])]), limit=2)
        t += 1


def finalize(agg):
    reasons = []
    cov = agg['covers']
    reg = set(cov.get('formats_registered', ()))
    if reg - set(cov.get('formats', ())):
        reasons.append(f"registered formats never rendered: {sorted(reg - set(cov.get('formats', ())))}")
    if len(cov.get('notations', ())) < 3:   # polish, standard, None (bare TabWriter())
        reasons.append(f"notations covered: {sorted(cov.get('notations', ()))}")
    enumerated = max((int(x) for x in cov.get('configs_enumerated', ()) if str(x).isdigit()), default=0)
    if len(cov.get('writer_configs', ())) < enumerated:
        reasons.append(f"writer configurations rendered {len(cov.get('writer_configs', ()))} < enumerated {enumerated}")
    return dict(inconclusive=reasons, writer_configurations=enumerated)


def replay(wit):
    from ..worker import Out
    out = Out()
    c = dict(wit['case'])
    cfg = c.pop('writer')
    c.pop('detail', None)
    tab, err = build_tab(c)
    if err is not None or tab is None or tab.tree is None:
        return dict(violates=False, detail=dict(build_error=err))
    diags = render_check(c, tab, cfg, out, None)
    want = wit['diagnosis']
    same = [v for v in out.violations if v['diagnosis'] == want]
    return dict(violates=bool(same), detail=[v['message'][:600] for v in same] or [str(d) for d in diags][:5])
