"""C08 - model evaluation is compositional and frame-correct."""
from __future__ import annotations

import random

from .. import lib, modelgen as mg, runs
from ..ref import sem as rsem, syn

ID = 'C08'
META = dict(
    level='exploration',
    exhaustive=False,
    rule=('per logic: models assembled through the public model API (set_atomic_value, set_predicated_value, set_opaque_value, '
          'set_literal_value, R.add; worlds <= 3, constants 0..3, predicates of arity 1-2 plus identity/existence, random values) and '
          'finished; (1) value_of(s, world) for seeded sentences (depth <= 3, all operators, quantifiers, modal operators, opaque '
          'sentences, over the model\'s constants) at every world against the REF-SEM evaluation of the finished model\'s DATA; (2) '
          'R after finish() against the closure its frame class requires of R before; (3) classical family: identity an equivalence '
          'at each world, extensions closed under it, existence universal; (4) the same multiset of calls in 4 orders gives the '
          'same finished model (or all raise). non-trivial = distinct (logic, model, sentence, world) evaluations of sentences with '
          '>= 1 operator/quantifier.'),
    assumptions=['REF-SEM semantics incl. lattice reading of the FDE family and the empty-domain convention (exists = bottom, forall = top)'],
    min_events={'quick': {'evaluations_compared': 150000, 'models_built': 6000, 'frame_closures_checked': 4000, 'permutation_checks': 8000, 'logics': 52},
                'thorough': {'evaluations_compared': 3000000, 'models_built': 80000, 'logics': 52}},
    budget=dict(quick=1500, thorough=7200),
    unit_timeout=dict(quick=900, thorough=3000),
)
NMODELS = dict(quick=160, thorough=1500)
NSENT = dict(quick=30, thorough=60)


NMIXED = dict(quick=8, thorough=32)


def units(tier, seed):
    # per-logic units, plus units evaluating models of many logics in ONE process in seeded orders (class-level state
    # shared along the model classes' inheritance chains only shows across logics)
    return [dict(name=f'models:{n}', logic=n) for n in lib.STATIC_LOGICS] + \
           [dict(name=f'mixed:{k}', logic=None, k=k) for k in range(NMIXED[tier])]


def run_mixed(unit, out, tier, seed):
    k = unit['k']
    rng = random.Random(f'{seed}:mixed:{k}:c08')
    names = [n for n in lib.STATIC_LOGICS if n in lib.logic_names()]
    if k % 4 == 0:
        order = sorted(names, key=lambda n: (len(rsem.sem(n).values) != 4, rng.random()))
    elif k % 4 == 1:
        order = sorted(names, key=lambda n: (not rsem.sem(n).modal, rng.random()))
    elif k % 4 == 2:
        order = sorted(names, key=lambda n: (rsem.sem(n).modal, rng.random()))
    else:
        order = names[:]
        rng.shuffle(order)
    order = order[:20] if tier == 'quick' else order
    out.cover('mixed_orders', '>'.join(order[:6]))
    for name in order:
        S = rsem.sem(name)
        for i in range(2):
            facts, worlds, consts = mg.random_facts(rng, S)
            out.count('mixed_process_models')
            check_model(name, S, facts, worlds, consts, out, rng, tier, 10)


def model_signature(m, S):
    I = runs.export_model(m, S)
    return (tuple(sorted((a, tuple(sorted(b))) for a, b in I.R.items())), tuple(sorted(I.atoms.items())),
            tuple(sorted(I.preds.items())), tuple(sorted(I.opaques.items(), key=repr)), tuple(I.domain))


def check_model(name, S, facts, worlds, consts, out, rng, tier, nsent):
    case0 = dict(logic=name, facts=mg.facts_to_json(facts), shown=[mg.show_fact(f) for f in facts])

    def viol(kind, diag, msg, **extra):
        out.violation(kind, dict(case0, **extra), dict(diag, family=S.base_name, classical=S.classical), f'{name}: {msg}', size=len(facts))
    before_R = {}
    for f in facts:
        if f[0] == 'access':
            before_R.setdefault(f[1], set()).add(f[2])
    try:
        m = mg.build(name, facts)
    except Exception as e:
        viol('model-build-raises', dict(clause='consistent-facts-rejected', error=type(e).__name__),
             f'building a model from consistent facts raised {type(e).__name__}: {e}')
        return None
    out.count('models_built')
    I = runs.export_model(m, S)
    # ---- (2) frame closure
    if S.modal:
        out.count('frame_closures_checked')
        all_worlds = sorted({0} | {f[-1] for f in facts if f[0] != 'access'} | {w for ws in before_R.values() for w in ws} | set(before_R))
        after = {(a, b) for a in I.R for b in I.R[a]}
        before = {(a, b) for a in before_R for b in before_R[a]}
        if S.frame == 'serial':
            need = [w for w in all_worlds if not before_R.get(w)]
            bad = [w for w in I.worlds if not I.R.get(w)]
            extra = {(a, b) for (a, b) in after - before if a in all_worlds and a not in need}
            if bad or not before <= after or extra:
                viol('frame-closure', dict(clause='serial-closure', frame=S.frame),
                     f'access after finish {sorted(after)} from {sorted(before)}: worlds without successor {bad}, lost {sorted(before - after)}, '
                     f'gratuitous {sorted(extra)}')
        else:
            want_R = S.closure(before, all_worlds)
            want = {(a, b) for a in want_R for b in want_R[a]}
            if after != want:
                viol('frame-closure', dict(clause='closure-differs', frame=S.frame,
                                           direction='too-small' if after < want else 'too-large' if after > want else 'different'),
                     f'access after finish {sorted(after)} from {sorted(before)}; required closure {sorted(want)}')
    # ---- (3) classical identity / existence
    if S.classical and consts:
        out.count('identity_checks')
        for w in I.worlds:
            idv = lambda c1, c2: I.preds.get((w, syn.IDENTITY, (c1, c2)), 'F')
            dom = I.domain
            probs = []
            for c1 in dom:
                if idv(c1, c1) != 'T':
                    probs.append('not-reflexive')
                if I.preds.get((w, syn.EXISTENCE, (c1,)), 'F') != 'T':
                    probs.append('existence-not-universal')
                for c2 in dom:
                    if idv(c1, c2) == 'T' and idv(c2, c1) != 'T':
                        probs.append('not-symmetric')
                    for c3 in dom:
                        if idv(c1, c2) == 'T' and idv(c2, c3) == 'T' and idv(c1, c3) != 'T':
                            probs.append('not-transitive')
            for (ww, p, ps), v in I.preds.items():
                if ww != w or v != 'T' or p == syn.IDENTITY:
                    continue
                for i, c1 in enumerate(ps):
                    for c2 in dom:
                        if c2 != c1 and idv(c1, c2) == 'T':
                            ps2 = ps[:i] + (c2,) + ps[i + 1:]
                            if I.preds.get((w, p, ps2), 'F') != 'T':
                                probs.append('extension-not-closed-under-identity')
            if probs:
                viol('classical-identity', dict(clause='identity/existence', problems='+'.join(sorted(set(probs)))),
                     f'world {w}: {sorted(set(probs))}; model {I.describe()}')
                break
    # ---- (1) evaluation
    sents = mg.test_sentences(rng, S, list(I.domain), nsent)
    for s in sents:
        ls = syn.to_lib(s)
        for w in I.worlds:
            out.count('evaluations_compared')
            out.case((name, tuple(facts), s, w), nontrivial=syn.size(s) >= 2)
            want = I.value(s, w)
            try:
                got = str(m.value_of(ls, world=w))
            except Exception as e:
                viol('value_of-raises', dict(clause='value_of-raises', error=type(e).__name__, top=s[0] if s[0] != 'O' else s[1]),
                     f'value_of({syn.show(s)}, world={w}) raised {type(e).__name__}: {e}', sentence=syn.show(s), world=w)
                continue
            if got != want:
                diag = dict(clause='value-differs', culprit=blame(I, m, s, w))
                if S.base_name == 'FDE':
                    I2 = rsem.Interp(rsem.sem_linear(name), worlds=I.worlds, R=I.R, domain=I.domain, atoms=I.atoms, preds=I.preds,
                                     opaques=I.opaques)
                    diag['explained_by_linear_order'] = (I2.value(s, w) == got)
                viol('evaluation', diag, f'value_of({syn.show(s)}, world={w}) = {got}, reference {want}; model {I.describe()}',
                     sentence=syn.show(s), world=w, got=got, want=want)
                break
    return m


def blame(I, m, s, w):
    """The smallest sub-sentence (and world) on which library and reference disagree
    while agreeing on all its components: names the operator/quantifier at fault."""
    def rec(t, w):
        kids = []
        if t[0] == 'O':
            if t[1] in syn.MODAL and I.sem.modal:
                kids = [(t[2][0], u) for u in sorted(I.R.get(w, ()))]
            elif not I.sem.is_opaque(t):
                kids = [(x, w) for x in t[2]]
        elif t[0] == 'Q' and not I.sem.is_opaque(t):
            kids = [(syn.subst(t[3], c, t[2]), w) for c in I.domain]
        for k, u in kids:
            r = rec(k, u)
            if r:
                return r
        try:
            got = str(m.value_of(syn.to_lib(t), world=u if False else w))
        except Exception:
            return None
        if got != I.value(t, w):
            return ('opaque' if I.sem.is_opaque(t) else t[1] if t[0] in 'OQ' else t[0])
        return None
    return rec(s, w)


def run_unit(unit, out, tier, seed):
    if unit.get('logic') is None:
        return run_mixed(unit, out, tier, seed)
    name = unit['logic']
    if name not in lib.logic_names():
        out.note(f'logic {name} no longer registered')
        return
    S = rsem.sem(name)
    out.count('logics')
    out.cover('logics', name)
    rng = random.Random(f'{seed}:{name}:c08')
    for i in range(NMODELS[tier]):
        facts, worlds, consts = mg.random_facts(rng, S)
        m = check_model(name, S, facts, worlds, consts, out, rng, tier, NSENT[tier] if i % 2 == 0 else 6)
        if i < 2:
            out.sample(dict(logic=name, facts=[mg.show_fact(f) for f in facts][:12]), limit=2)
        if m is None:
            continue
        # ---- (4) permutations
        sig0 = model_signature(m, S)
        for k in range(3):
            perm = list(facts)
            rng.shuffle(perm)
            out.count('permutation_checks')
            try:
                m2 = mg.build(name, perm)
                sig = model_signature(m2, S)
            except Exception as e:
                sig = ('raised', type(e).__name__)
            if sig != sig0:
                out.violation('order-dependent-model',
                              dict(logic=name, facts=mg.facts_to_json(facts), permuted=mg.facts_to_json(perm),
                                   shown=[mg.show_fact(f) for f in perm]),
                              dict(clause='insertion-order-changes-finished-model', family=S.base_name, classical=S.classical,
                                   raised=(sig[0] == 'raised'),
                                   identity_involved=any(f[0] == 'pred' and f[1] == syn.IDENTITY for f in facts)),
                              f'{name}: the same facts in another order give a different finished model: {[mg.show_fact(f) for f in perm]}',
                              size=len(facts))
                break


def replay(wit):
    from ..worker import Out
    out = Out()
    c = wit['case']
    name = c['logic']
    S = rsem.sem(name)
    facts = mg.facts_from_json(c['facts'])
    worlds = sorted({f[-1] for f in facts if f[0] != 'access'} | {w for f in facts if f[0] == 'access' for w in f[1:]}) or [0]
    consts = sorted({p for f in facts if f[0] == 'pred' for p in f[2]})
    if wit['kind'] == 'order-dependent-model':
        a = model_signature(mg.build(name, facts), S)
        try:
            b = model_signature(mg.build(name, mg.facts_from_json(c['permuted'])), S)
        except Exception as e:
            b = ('raised',)
        return dict(violates=a != b, detail='signatures differ' if a != b else 'same')
    rng = random.Random(0)
    for _ in range(30):
        check_model(name, S, facts, worlds, consts, out, rng, 'thorough', 60)
        same = [v for v in out.violations if v['kind'] == wit['kind']]
        if same:
            return dict(violates=True, detail=[v['message'][:400] for v in same][:2])
    return dict(violates=False, detail='not reproduced with 30x60 sentences')
