"""C15 - substitution and the derived attributes of sentences are exact."""
from __future__ import annotations

import random
from itertools import product

from ..ref import syn

ID = 'C15'
META = dict(
    level='exploration',
    exhaustive=dict(quick=False, thorough=False),
    rule=('sentences (open and closed) over a 2-constant, 2-variable, 2-predicate (+Identity) vocabulary: EXHAUSTIVE for <= 1 '
          'connective/quantifier and a seeded slice (thorough: all) of those with 2, plus random sentences to depth 6 over the full '
          'vocabulary; x every parameter pair (new, old) from {a, b, x, y, z-absent} incl. new = old, old absent, old bound by a '
          'quantifier. Checked against REF-SYN: s.substitute(new, old); c >> q and q.unquantify(c) = substitution of c for the '
          'bound variable in the body; (~s).negative() = s and s.negative() = ~s otherwise; constants / variables / predicates / '
          'atomics (sets) and operators / quantifiers (prefix order) = the walk of the structure. The result is also required to '
          'leave the original sentence unchanged. Units run under ITEM_CACHE_SIZE 1/3/50/1000 with unrelated constructions between building a sentence and substituting into it. non-trivial = distinct (sentence, new, old) where old occurs in the sentence, '
          'and distinct sentences with >= 2 nodes for the attribute checks.'),
    assumptions=['REF-SYN (vlib/ref/syn.py) reads sentences through plain attribute access only'],
    min_events={'quick': {'substitutions_checked': 40000, 'substitutions_changing': 10000, 'attribute_sets_checked': 8000,
                          'unquantify_checked': 2000, 'negative_checked': 5000},
                'thorough': {'substitutions_checked': 1500000, 'substitutions_changing': 300000, 'attribute_sets_checked': 120000}},
    budget=dict(quick=1500, thorough=7200),
    unit_timeout=dict(quick=900, thorough=3000),
)

a, b = syn.const(0), syn.const(1)
x, y, z = syn.var(0), syn.var(1), syn.var(2)
c9 = syn.const(2, 3)
F, H = syn.pred(0, 0, 1), syn.pred(2, 0, 2)
TERMS = (a, b, x, y)
PAIRS = [(n, o) for n in (a, b, x, y, c9) for o in (a, b, x, y, z)]
UN = ('Negation', 'Necessity')
BIN = ('Conjunction', 'Conditional')


def leaves():
    out = [syn.atom(0)]
    out += [syn.papp(F, t) for t in TERMS]
    out += [syn.papp(H, t, u) for t in TERMS for u in TERMS]
    out += [syn.papp(syn.IDENTITY, a, x), syn.papp(syn.IDENTITY, x, x)]
    return out


def grow(level):
    for s in level:
        for o in UN:
            yield syn.op(o, s)
        for q in syn.QUANTIFIERS:
            for v in (x, y):
                yield syn.quant(q, v, s)


CACHE_SIZES = ('1', '3', '50', '1000')


def units(tier, seed):
    # every unit runs under one construction-cache size; small caches make equal parameters distinct objects
    # (evicted and rebuilt) between the construction of a sentence and the substitution into it
    us = [dict(name=f'exh:0-1:cache{cs}', kind='exh01', env={'ITEM_CACHE_SIZE': cs}) for cs in CACHE_SIZES]
    us += [dict(name=f'exh:2:{i}', kind='exh2', part=i, parts=16, env={'ITEM_CACHE_SIZE': CACHE_SIZES[i % 4]}) for i in range(16)]
    us += [dict(name=f'rnd:{i}', kind='rnd', idx=i, env={'ITEM_CACHE_SIZE': CACHE_SIZES[i % 4]}) for i in range(16)]
    return us


def check_sentence(t, out, pairs, viol, prebuilt=None):
    from pytableaux.lang import Operated, Operator, Quantified
    try:
        s = prebuilt if prebuilt is not None else syn.to_lib(t)
    except Exception as e:
        viol('construction-raises', t, None, f'{type(e).__name__}: {e}', error=type(e).__name__)
        return
    if syn.from_lib(s) != t:
        viol('construct-then-read-differs', t, None, f'read back {syn.from_lib(s)}')
        return
    big = syn.size(t) >= 2
    # derived attributes
    out.count('attribute_sets_checked')
    out.case(('attrs', t), nontrivial=big)
    want = dict(
        constants=syn.constants(t), variables=syn.variables(t), predicates=syn.predicates(t), atomics=syn.atomics(t),
        operators=syn.operators(t), quantifiers=syn.quantifiers(t))
    try:
        got = dict(
            constants=frozenset(syn.param_from_lib(p) for p in s.constants),
            variables=frozenset(syn.param_from_lib(p) for p in s.variables),
            predicates=frozenset(syn.pred_from_lib(p) for p in s.predicates),
            atomics=frozenset(syn.from_lib(p) for p in s.atomics),
            operators=tuple(str(o.name) for o in s.operators),
            quantifiers=tuple(str(q.name) for q in s.quantifiers))
    except Exception as e:
        viol('attribute-raises', t, None, f'{type(e).__name__}: {e}', error=type(e).__name__)
        got = want
    for k in want:
        if got[k] != want[k]:
            viol('derived-attribute-wrong', t, None, f'{k}: library {got[k]!r} vs walk {want[k]!r}', attribute=k, top=t[0])
    # negative
    out.count('negative_checked')
    try:
        n1 = syn.from_lib(s.negative())
        n2 = syn.from_lib((~s).negative())
        n3 = syn.from_lib(-s)
    except Exception as e:
        viol('negative-raises', t, None, f'{type(e).__name__}: {e}', error=type(e).__name__)
    else:
        if n1 != syn.negative(t) or n3 != syn.negative(t):
            viol('negative-wrong', t, None, f'negative() gave {n1}, expected {syn.negative(t)}', top=t[0])
        if n2 != t:
            viol('un-negating-a-negation-wrong', t, None, f'(~s).negative() gave {n2}', top=t[0])
    # unrelated constructions, so that with a small cache the parameters handed to substitute() are rebuilt objects
    for k in range(6):
        syn.to_lib(('O', 'Conjunction', (('A', k % 5, 40 + k), ('P', (k % 4, 30 + k, 1), (('c', k % 4, 20 + k),)))))
    out.cover('cache_sizes', _cache_size())
    # substitution
    for new, old in pairs:
        out.count('substitutions_checked')
        want_t = syn.subst(t, new, old)
        occurs = old in set(syn.params(t))
        if occurs and new != old:
            out.count('substitutions_changing')
        out.case(('subst', t, new, old), nontrivial=occurs)
        try:
            r = s.substitute(syn.to_lib(new), syn.to_lib(old))
            got_t = syn.from_lib(r)
        except Exception as e:
            viol('substitute-raises', t, (new, old), f'{type(e).__name__}: {e}', error=type(e).__name__, top=t[0])
            continue
        if got_t != want_t:
            viol('substitute-wrong', t, (new, old), f'library {syn.show(got_t)} vs reference {syn.show(want_t)}', top=t[0],
                 old_bound=(old[0] == 'v' and any(q[2] == old for q in syn.walk(t) if q[0] == 'Q')), new_equals_old=(new == old),
                 old_occurs=occurs)
        if syn.from_lib(s) != t:
            viol('substitute-mutated-the-original', t, (new, old), 'original sentence changed', top=t[0])
    # unquantify
    if t[0] == 'Q':
        for c in (a, b, c9):
            out.count('unquantify_checked')
            want_t = syn.subst(t[3], c, t[2])
            try:
                g1 = syn.from_lib(s.unquantify(syn.to_lib(c)))
                g2 = syn.from_lib(syn.to_lib(c) >> s)
            except Exception as e:
                viol('unquantify-raises', t, (c, t[2]), f'{type(e).__name__}: {e}', error=type(e).__name__)
                continue
            if g1 != want_t or g2 != want_t:
                viol('unquantify-wrong', t, (c, t[2]), f'unquantify {syn.show(g1)}, >> {syn.show(g2)}, reference {syn.show(want_t)}', body=t[3][0])


def _cache_size():
    from pytableaux.lang.lex import LexicalAbc
    return type(LexicalAbc).__call__._cache.queue.maxlen


def rnd_sentence(rng, depth, scope=()):
    if depth <= 0 or rng.random() < 0.2:
        r = rng.random()
        if r < 0.25:
            return ('A', rng.randint(0, 4), rng.choice((0, 0, 1, 7)))
        terms = [('c', rng.randint(0, 3), rng.choice((0, 0, 2))) for _ in range(2)] + list(scope) * 2 + [x, y]
        if r < 0.4:
            return ('P', syn.IDENTITY, (rng.choice(terms), rng.choice(terms)))
        if r < 0.45:
            return ('P', syn.EXISTENCE, (rng.choice(terms),))
        ar = rng.randint(1, 3)
        return ('P', (rng.randint(0, 3), rng.choice((0, 1)), ar), tuple(rng.choice(terms) for _ in range(ar)))
    r = rng.random()
    if r < 0.3:
        v = ('v', rng.randint(0, 3), rng.choice((0, 0, 1)))
        return ('Q', rng.choice(syn.QUANTIFIERS), v, rnd_sentence(rng, depth - 1, scope + (v,)))
    o, ar = rng.choice(syn.OPERATORS)
    return ('O', o, tuple(rnd_sentence(rng, depth - 1, scope) for _ in range(ar)))


def run_unit(unit, out, tier, seed):
    import warnings
    from pytableaux import errors
    warnings.simplefilter('ignore', category=errors.RepeatValueWarning)

    def viol(clause, t, pair, msg, **diag):
        out.violation('syntax', dict(sentence=repr(t), shown=syn.show(t), pair=repr(pair)), dict(clause=clause, **diag),
                      f'{syn.show(t)} [{pair}]: {clause}: {msg}', size=syn.size(t),
                      env={'ITEM_CACHE_SIZE': str(_cache_size())})
    L0 = leaves()
    L1 = list(grow(L0)) + [syn.op(o, p, q) for o in BIN for p in L0 for q in L0]
    kind = unit['kind']
    if kind == 'exh01':
        for t in L0 + L1:
            check_sentence(t, out, PAIRS, viol)
        # binary sentences whose two operands are ONE object (s & s): every compound operand of level 1, all operators
        from pytableaux.lang import Operated, Operator
        for x_ in L1:
            xl = syn.to_lib(x_)
            for o_ in BIN + ('Disjunction', 'Biconditional'):
                t = syn.op(o_, x_, x_)
                dup = Operated(Operator[o_], (xl, xl))
                check_sentence(t, out, PAIRS[:6], viol, prebuilt=dup)
                check_sentence(syn.neg(t), out, PAIRS[:3], viol, prebuilt=~dup)
                out.count('same_object_operand_sentences', 2)
        out.sample(dict(sentence=syn.show(L1[5]), pairs=[(syn.show(n), syn.show(o)) for n, o in PAIRS[:4]]), limit=1)
        out.count('exhaustive_level_0_1_sentences', len(L0) + len(L1))
    elif kind == 'exh2':
        rng = random.Random(f'{seed}:{unit["name"]}')
        n = 0
        def level2():
            yield from grow(L1)
            for o in BIN:
                for p in L0:
                    for q in L1:
                        yield syn.op(o, p, q)
                        yield syn.op(o, q, p)
        keep = 1.0 if tier == 'thorough' else 0.12
        for i, t in enumerate(level2()):
            if i % unit['parts'] != unit['part']:
                continue
            if keep < 1.0 and rng.random() > keep:
                continue
            pairs = PAIRS if tier == 'thorough' else rng.sample(PAIRS, 8)
            check_sentence(t, out, pairs, viol)
            n += 1
            if n == 3:
                out.sample(dict(sentence=syn.show(t)), limit=1)
    else:
        rng = random.Random(f'{seed}:{unit["name"]}')
        for i in range(3000 if tier == 'thorough' else 250):
            t = rnd_sentence(rng, rng.randint(2, 6))
            ps = set(syn.params(t))
            cand = list(ps) + [a, b, x, y, c9]
            pairs = [(rng.choice(cand), rng.choice(cand)) for _ in range(8)]
            check_sentence(t, out, pairs, viol)
            if i == 5:
                out.sample(dict(sentence=syn.show(t)), limit=1)


def replay(wit):
    from ..worker import Out
    out = Out()
    t = eval(wit['case']['sentence'])
    pair = eval(wit['case']['pair'])
    def viol(clause, t_, pair_, msg, **diag):
        out.violation('syntax', {}, dict(clause=clause, **diag), msg)
    check_sentence(t, out, [pair] if pair else PAIRS, viol)
    same = [v for v in out.violations if v['diagnosis'].get('clause') == wit['diagnosis'].get('clause')]
    return dict(violates=bool(same), detail=[v['message'][:300] for v in same][:3])
