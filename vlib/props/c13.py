"""C13 - parsers accept only closed well-formed sentences and fail only with ParseError.

Monitors around every ``parser(str)`` call:

* outcome class: a sentence | ParseError (subclass) | anything else -> violation ``wrong-exception``
  (diagnosis: exception type + bottom-most frame inside lang/parsing.py);
* operation budget: function entries inside lang/parsing.py, counted with ``sys.monitoring`` (PY_START on
  every code object of the module), must stay below ``50*(n+1)**2 + 1000`` -> violation ``op-budget``
  (the wall-clock watchdog only ever yields *inconclusive*);
* history independence: a long-lived parser must behave like a FRESH parser built from a copy of its
  predicate store taken before the call (same auto_preds flag) -> violation ``history-dependent``;
  plus a cold/warm re-check of sampled strings at the end of every unit (global caches);
* result well-formedness: no free variable, no vacuous or re-bound quantifier, predicates applied to
  exactly their arity (REF-SYN clauses, evaluated iteratively on a flat form) -> ``ill-formed-result``.
"""
from __future__ import annotations

import random
import re
import sys
import threading
import time
import types

from .. import gen_syn as g
from ..ref import syn
from ..worker import CaseTimeout, watchdog

ID = 'C13'
NOTATIONS = ('polish', 'standard')

META = dict(
    level='exploration',
    exhaustive=False,
    rule=('strings for both parsers: (a) ALL strings of length <= 3 over the notation alphabet + {e-acute, NUL, snowman} '
          '(thorough: also all strings of length 4..5 over a reduced alphabet with 1-2 representatives per character class); '
          '(b) random strings / token soup up to length 60; (c) renderings of random well-formed sentences (own renderer) with '
          '0..3 mutations (delete/duplicate/swap/insert/replace); (d) pathological inputs, one unit each (5000-deep nesting, '
          '5000-digit subscripts, 2000 open parens, long chains, wide balanced trees, many predicates, huge arity) and sweeps of the nesting depth '
          'around the recursion limit at 12 stack offsets (in fresh threads); (e) predicate stores empty / pre-declared / matching / '
          'conflicting, auto_preds on/off; (f) every string runs on a long-lived parser (life 200 parses, 1 for the fresh-state pass) and '
          'on a shadow parser built from the store snapshot. A case = (notation, store snapshot, auto_preds, string); distinct strings '
          'per configuration are distinct cases (digests capped at 5000 per unit; true per-unit count in monitor_events.cases_distinct_in_unit).'),
    assumptions=['REF-SYN well-formedness clauses (vlib/ref/syn.py; flat re-implementation self-checked against it in unit selfcheck)',
                 'operation budget 50*(n+1)^2+1000 parsing.py function entries is the bound for "terminates"',
                 'the only per-parser state is the predicate store (that is what the shadow parser is built from)'],
    min_events={
        'quick': dict(parses_returned=15000, parses_rejected_with_ParseError=100000, shadow_comparisons=100000,
                      shadow_comparisons_aged=50000, opcount_measurements=250000, wellformed_checked=15000,
                      deep_inputs_run=30, sweep_points=300, warm_rechecks=1500, ill_formed_inputs=3000,
                      sequences_of_200=50, selfcheck_ok=1),
        'thorough': dict(parses_returned=200000, parses_rejected_with_ParseError=2000000, shadow_comparisons=2000000,
                         shadow_comparisons_aged=1000000, opcount_measurements=4000000, wellformed_checked=200000,
                         deep_inputs_run=30, sweep_points=300, warm_rechecks=10000, ill_formed_inputs=100000,
                         sequences_of_200=1000, selfcheck_ok=1)},
    budget=dict(quick=1500, thorough=7200),
    unit_timeout=dict(quick=900, thorough=3000),
)

STORES = dict(
    empty=[],
    decl=[(0, 0, 1), (1, 0, 2), (2, 0, 3), (3, 0, 1), (0, 1, 2), (1, 1, 1)],
    decl2=[(0, 0, 2), (1, 0, 1), (2, 0, 1), (3, 0, 3), (0, 1, 1), (1, 1, 3)],
)
CONFIGS = [('empty', True), ('empty', False), ('decl', False), ('decl', True), ('decl2', False), ('decl2', True)]


def budget(n):
    return 50 * (n + 1) ** 2 + 1000

# ---------------------------------------------------------------- operation counter


class OpBudgetExceeded(BaseException):
    "Raised by the monitoring callback at every function entry once the budget is used up."


class _Mon:
    n = 0
    limit = None
    file = None
    ncodes = 0


_M = None


def _codes_of(mod):
    seen = {}

    def add(code):
        if code.co_filename != mod.__file__ or code in seen:
            return
        seen[code] = 1
        for c in code.co_consts:
            if isinstance(c, types.CodeType):
                add(c)

    def from_obj(o, depth=0):
        if isinstance(o, (staticmethod, classmethod)):
            o = o.__func__
        if isinstance(o, property):
            for f in (o.fget, o.fset, o.fdel):
                if f is not None:
                    from_obj(f, depth + 1)
            return
        if isinstance(o, types.FunctionType):
            add(o.__code__)
            w = getattr(o, '__wrapped__', None)
            if w is not None and depth < 4:
                from_obj(w, depth + 1)

    for v in list(vars(mod).values()):
        if isinstance(v, type) and v.__module__ == mod.__name__:
            for a in list(vars(v).values()):
                from_obj(a)
        else:
            from_obj(v)
    return list(seen)


def monitor():
    global _M
    if _M is not None:
        return _M
    import pytableaux.lang.parsing as parsing
    m = _Mon()
    m.file = parsing.__file__
    mon = sys.monitoring
    tool = None
    for tid in (mon.PROFILER_ID, mon.COVERAGE_ID, 3, 4):
        if mon.get_tool(tid) is None:
            tool = tid
            break
    if tool is None:
        raise RuntimeError('no free sys.monitoring tool id')
    mon.use_tool_id(tool, 'verif-c13')

    def on_start(code, offset):
        m.n += 1
        if m.limit is not None and m.n >= m.limit:
            raise OpBudgetExceeded()

    mon.register_callback(tool, mon.events.PY_START, on_start)
    codes = _codes_of(parsing)
    for c in codes:
        mon.set_local_events(tool, c, mon.events.PY_START)
    m.ncodes = len(codes)
    _M = m
    return m

# ---------------------------------------------------------------- one parse


def _padded(pad, f, s):
    if pad <= 0:
        return f(s)
    return _padded(pad - 1, f, s)


def site_of(e, file):
    if isinstance(e, RecursionError):
        return 'recursive-descent'
    site = None
    tb = e.__traceback__
    while tb is not None:
        code = tb.tb_frame.f_code
        if code.co_filename == file:
            site = code.co_name
        tb = tb.tb_next
    return site or 'outside-parsing.py'


def msgclass(e):
    m = str(e)
    m = re.sub(r"<(?:class|enum) '([^']*)'>", lambda mo: mo.group(1).rsplit('.', 1)[-1], m)
    m = re.sub(r"'.'", "'_'", m, flags=re.S)
    m = re.sub(r'\([^()]*\)', '(_)', m)
    m = re.sub(r'\d+', '#', m)
    m = re.sub(r'Marking\.', '', m)
    return type(e).__name__ + ': ' + m[:64]


def run_parse(parser, s, pad=0, thread=False, timeout=25.0):
    """-> (outcome, ops). outcome: ('OK', flat) | ('PE', cls, msgclass) | ('EXC', type, site) |
    ('BUDGET',) | ('NOTSENT', type) | ('TIMEOUT',)"""
    from pytableaux.errors import ParseError
    m = monitor()
    box = {}
    lim = budget(len(s)) + 1

    def call():
        m.n = 0
        m.limit = lim
        try:
            box['r'] = _padded(pad, parser, s)
        except BaseException as e:  # classified below; the library call only
            box['e'] = e
        finally:
            box['ops'] = m.n
            m.limit = None

    t0 = time.monotonic()
    if thread:
        th = threading.Thread(target=call, daemon=True)
        th.start()
        th.join(timeout)
        if th.is_alive():
            m.limit = 1     # every further function entry in parsing.py raises: the thread ends
            th.join(10)
            m.limit = None
            return ('TIMEOUT',), box.get('ops', 0)
    else:
        with watchdog(timeout):
            call()
    ops = box.get('ops', 0)
    e = box.get('e')
    if isinstance(e, KeyboardInterrupt):
        raise e
    if isinstance(e, CaseTimeout) or time.monotonic() - t0 >= timeout:
        return ('TIMEOUT',), ops
    if ops >= lim or isinstance(e, OpBudgetExceeded):
        return ('BUDGET',), ops
    if e is not None:
        if isinstance(e, ParseError):
            return ('PE', type(e).__name__, msgclass(e)), ops
        return ('EXC', type(e).__name__, site_of(e, m.file), repr(e)[:200]), ops
    try:
        return ('OK', g.flat_from_lib(box['r'])), ops
    except TypeError:
        return ('NOTSENT', type(box['r']).__name__), ops


def sig(o):
    "What must be equal between a long-lived parser and its fresh shadow."
    if o[0] == 'OK':
        return o
    if o[0] in ('PE', 'EXC'):
        return o[:2]
    return o[:1]


def short(o):
    if o[0] == 'OK':
        return 'OK'
    if o[0] in ('PE', 'EXC'):
        return f'{o[0]}:{o[1]}'
    return o[0]


def make_parser(notation, specs, auto):
    from pytableaux.lang import Parser, Predicates
    return Parser(notation, Predicates([tuple(p) for p in specs]), auto_preds=bool(auto))


def specs_of(store):
    return [[int(x) for x in p.spec] for p in store]


def judge(o, notation):
    "Diagnoses of the single-call clauses for one outcome."
    k = o[0]
    if k == 'EXC':
        return [dict(clause='wrong-exception', error=o[1], site=o[2], notation=notation)]
    if k == 'BUDGET':
        return [dict(clause='op-budget', notation=notation)]
    if k == 'NOTSENT':
        return [dict(clause='not-a-sentence', result=o[1], notation=notation)]
    if k == 'OK':
        return [dict(clause='ill-formed-result', problem=p, notation=notation)
                for p in sorted(set(g.flat_problems(o[1])))]
    return []

# ---------------------------------------------------------------- cases


def evaluate(case):
    """Re-execute one stored case exactly: a parser with the declared store, the history, then the input on the
    long-lived parser and on the shadow. -> (list of diagnosis dicts, detail dict)."""
    notation, auto = case['notation'], case['auto_preds']
    pad, thread = case.get('pad', 0), case.get('thread', False)
    s = case['input']
    p = make_parser(notation, case['preds'], auto)
    for h in case.get('history', ()):
        run_parse(p, h)
    snap = specs_of(p.predicates)
    o1, ops1 = run_parse(p, s, pad, thread)
    diags = judge(o1, notation)
    detail = dict(long=short(o1), ops_long=ops1, budget=budget(len(s)), snapshot=snap, input_len=len(s))
    if o1[0] == 'EXC':
        detail['exception'] = o1[3]
    if o1[0] == 'OK':
        detail['result'] = g.show_flat(o1[1])
    if case.get('shadow', True):
        o2, ops2 = run_parse(make_parser(notation, snap, auto), s, pad, thread)
        detail.update(fresh=short(o2), ops_fresh=ops2)
        for d in judge(o2, notation):
            if d not in diags:
                diags.append(d)
        if 'TIMEOUT' not in (o1[0], o2[0]) and sig(o1) != sig(o2):
            diags.append(dict(clause='history-dependent', notation=notation, auto_preds=bool(auto),
                              long=short(o1), fresh=short(o2)))
            if o2[0] == 'OK':
                detail['result_fresh'] = g.show_flat(o2[1])
    if 'TIMEOUT' in (o1[0],):
        detail['timeout'] = True
    return diags, detail


class Ctx:
    def __init__(self, out, unit, tier, seed):
        self.out, self.unit, self.tier, self.seed = out, unit, tier, seed
        self.distinct = set()
        self.recheck = []
        self.reported = {}
        self.n = 0
        self.max_ratio = {}
        self.noted_growth = False


class Session:
    "A long-lived parser of one configuration, renewed every ``life`` parses."

    def __init__(self, notation, store, auto, life, tag=None):
        self.notation, self.store, self.auto, self.life = notation, [list(p) for p in store], bool(auto), life
        self.tag = tag
        self.parser = None
        self.age = 0
        self.history = []

    def get(self):
        if self.parser is None or self.age >= self.life:
            self.parser = make_parser(self.notation, self.store, self.auto)
            self.age = 0
            self.history = []
        return self.parser


def tally(ctx, o, ses, fam):
    out = ctx.out
    out.count('opcount_measurements')
    k = o[0]
    if k == 'OK':
        out.count('parses_returned')
        out.count('wellformed_checked')
        out.cover('outcomes', f'{ses.notation}:OK')
        for tok in o[1][:40]:
            if tok[0] == 'O':
                out.cover('result_operators', tok[1])
            elif tok[0] == 'Q':
                out.cover('result_quantifiers', tok[1])
            elif tok[0] == 'P':
                p = tok[1]
                out.cover('result_predicates', 'Identity' if p == syn.IDENTITY else 'Existence' if p == syn.EXISTENCE
                          else f'user/{p[2]}' if p[2] <= 3 else 'user/4+')
            else:
                out.cover('result_kinds', 'atomic')
    elif k == 'PE':
        out.count('parses_rejected_with_ParseError')
        out.cover('parse_error_classes', f'{ses.notation}: {o[2]}')
        out.cover('outcomes', f'{ses.notation}:PE:{o[1]}')
    elif k == 'TIMEOUT':
        out.inconc('case-watchdog')
    else:
        out.cover('outcomes', f'{ses.notation}:{short(o)}')


def check_string(ctx, ses, s, fam, thread=False, pad=0, shadow=True):
    out = ctx.out
    p = ses.get()
    snap = specs_of(p.predicates)
    key = hash((ses.notation, ses.auto, tuple(map(tuple, snap)), s))
    new = key not in ctx.distinct
    if new:
        ctx.distinct.add(key)
    if new and len(out.nontrivial) < 5000:
        out.case((ses.notation, ses.auto, snap, s), nontrivial=True)
    else:
        out.case(None)
    o1, ops1 = run_parse(p, s, pad, thread)
    tally(ctx, o1, ses, fam)
    ratio = ops1 / budget(len(s))
    if ratio > ctx.max_ratio.get(ses.notation, (0,))[0]:
        ctx.max_ratio[ses.notation] = (ratio, ops1, len(s))
    diags = judge(o1, ses.notation)
    if o1[0] == 'PE' and ses.auto and len(p.predicates) > len(snap):
        # informational (not a clause of the property as monitored): a rejected input still declared predicates
        out.count('rejected_parse_grew_store')
        if not ctx.noted_growth:
            ctx.noted_growth = True
            out.note("informational: a rejected input can leave auto-declared predicates in the store (e.g. polish 'KFm' on an "
                     "empty store is rejected but declares F/1); counted in rejected_parse_grew_store. Not treated as a violation: "
                     "the shadow parser is built from the store as it was before the call.")
    o2 = None
    if shadow:
        o2, ops2 = run_parse(make_parser(ses.notation, snap, ses.auto), s, pad, thread)
        tally(ctx, o2, ses, fam)
        out.count('shadow_comparisons')
        if ses.age > 0:
            out.count('shadow_comparisons_aged')
        for d in judge(o2, ses.notation):
            if d not in diags:
                diags.append(d)
        if 'TIMEOUT' not in (o1[0], o2[0]) and sig(o1) != sig(o2):
            diags.append(dict(clause='history-dependent', notation=ses.notation, auto_preds=ses.auto,
                              long=short(o1), fresh=short(o2)))
        # sample for the cold/warm re-check at the end of the unit
        ctx.n += 1
        if len(ctx.recheck) < 400 and (ctx.n % 37 == 1 or (o2[0] == 'OK' and ctx.n % 5 == 0)) and len(s) <= 400:
            ctx.recheck.append((ses.notation, snap, ses.auto, s, sig(o2)))
    if diags:
        case = dict(notation=ses.notation, auto_preds=ses.auto, preds=ses.store, history=list(ses.history),
                    input=s, pad=pad, thread=thread, shadow=shadow, family=fam)
        for d in diags:
            report(ctx, d, case)
    ses.history.append(s)
    ses.age += 1
    return o1


def report(ctx, diag, case):
    "Confirm through evaluate(), shrink (same diagnosis), record."
    out = ctx.out
    dkey = repr(sorted(diag.items()))
    seen = ctx.reported.get(dkey, 0)
    ctx.reported[dkey] = seen + 1
    if seen >= 3:
        out.count('violations_not_shrunk_again')
        out.violation(diag['clause'], case, diag, 'further instance (not shrunk)', size=10 ** 6 + len(case['input']))
        return

    def fails(c):
        try:
            return diag in evaluate(c)[0]
        except CaseTimeout:
            return False

    if not fails(case):
        # not reproducible from the session history alone (global state?): replay re-runs the whole unit
        case = dict(case, unit=ctx.unit, tier=ctx.tier, seed=ctx.seed, confirmed=False, history=case['history'][-5:])
        out.violation(diag['clause'], case, diag,
                      f'{diag} on input of length {len(case["input"])} (only inside the unit run)', size=10 ** 5)
        return
    # history first (cheap wins), then the input
    if case['history']:
        if diag['clause'] != 'history-dependent' and fails(dict(case, history=[])):
            case = dict(case, history=[])
        else:
            hist = list(case['history'])
            n = 0
            i = len(hist) - 1
            step = max(1, len(hist) // 2)
            while step >= 1 and n < 80:
                i = 0
                while i < len(hist) and n < 80:
                    cand = hist[:i] + hist[i + step:]
                    n += 1
                    if fails(dict(case, history=cand)):
                        hist = cand
                    else:
                        i += step
                step //= 2
            case = dict(case, history=hist)
    budget_evals = 120 if len(case['input']) > 1500 else 300
    small = g.shrink_string(case['input'], lambda s2: fails(dict(case, input=s2)), budget=budget_evals)
    case = dict(case, input=small, confirmed=True)
    diags, detail = evaluate(case)
    out.violation(diag['clause'], case, diag,
                  f'{case["notation"]} parser (auto_preds={case["auto_preds"]}, store={case["preds"]}, '
                  f'{len(case["history"])} earlier parses) on {summary(small)}: {detail}', size=len(small) + len(case['history']))


def summary(s):
    if len(s) <= 80:
        return repr(s)
    runs = []
    i = 0
    while i < len(s) and len(runs) < 12:
        j = i
        while j < len(s) and s[j] == s[i]:
            j += 1
        runs.append(f'{s[i]!r}*{j - i}' if j - i > 3 else repr(s[i:j]))
        i = j
    return f'<len {len(s)}: ' + ' + '.join(runs) + (' ...' if i < len(s) else '') + '>'


def warm_recheck(ctx):
    "Cold/warm: strings first parsed early in this process must parse the same way at the end."
    out = ctx.out
    for notation, snap, auto, s, want in ctx.recheck:
        o, _ = run_parse(make_parser(notation, snap, auto), s)
        out.count('warm_rechecks')
        if o[0] != 'TIMEOUT' and sig(o) != want:
            diag = dict(clause='history-dependent', notation=notation, auto_preds=auto, long='warm:' + short(o),
                        fresh='cold:' + (want[0] if want[0] != 'PE' else 'PE:' + want[1]))
            case = dict(notation=notation, auto_preds=auto, preds=snap, history=[], input=s, unit=ctx.unit,
                        tier=ctx.tier, seed=ctx.seed, confirmed=False, family='warm-recheck')
            out.violation('history-dependent', case, diag,
                          f'{notation}: {s!r} parsed differently at the end of the unit than at first', size=10 ** 5)

# ---------------------------------------------------------------- units


def units(tier, seed):
    thorough = tier == 'thorough'
    us = []
    # slow single-input units first (the driver starts units in list order)
    for n in NOTATIONS:
        for name in SWEEPS:
            us.append(dict(name=f'sweep:{n}:{name}', fam='sweep', notation=n, which=name))
    for n in NOTATIONS:
        for name in PATHOLOGICAL:
            us.append(dict(name=f'path:{n}:{name}', fam='path', notation=n, which=name))
    us.sort(key=lambda u: 0 if (u['notation'] == 'standard' and 'binary' in u['which']) else 1 if 'quant' in u['which'] else 2)
    us.append(dict(name='selfcheck'))
    nx = 12
    for n in NOTATIONS:
        for i in range(nx):
            us.append(dict(name=f'exh3:{n}:{i}', fam='exh3', notation=n, part=i, parts=nx))
    if thorough:
        nx5 = 40
        for n in NOTATIONS:
            for i in range(nx5):
                us.append(dict(name=f'exh5:{n}:{i}', fam='exh5', notation=n, part=i, parts=nx5))
    nr, per = (16, 2500) if not thorough else (64, 20000)
    for i in range(nr):
        us.append(dict(name=f'rand:{i}', fam='rand', n=per, idx=i))
    for i in range(nr):
        us.append(dict(name=f'mut:{i}', fam='mut', n=per, idx=i))
    ns, seqs = (8, 10) if not thorough else (32, 60)
    for i in range(ns):
        us.append(dict(name=f'seq:{i}', fam='seq', seqs=seqs, idx=i))
    return us


def run_unit(unit, out, tier, seed):
    ctx = Ctx(out, unit, tier, seed)
    monitor()
    fam = unit.get('fam', 'selfcheck')
    out.cover('families', fam)
    rng = random.Random(f'{seed}:{unit["name"]}')
    globals()['unit_' + fam](ctx, unit, rng)
    warm_recheck(ctx)
    out.count('cases_distinct_in_unit', len(ctx.distinct))
    for n, (ratio, ops, ln) in ctx.max_ratio.items():
        # decile of the budget reached by the most expensive parse of this unit
        out.cover('max_budget_fraction', f'{n}: <= {min(1.0, (int(ratio * 10) + 1) / 10):.1f}')
        if ln >= 200:
            out.cover('ops_of_long_inputs', f'{n}: len {ln} -> {ops} entries ({ops / (ln + 1) ** 2:.2f} n^2)')


def replay(wit):
    from ..worker import Out
    case = wit['case']
    monitor()
    want = wit.get('diagnosis')
    if case.get('confirmed', True) and 'unit' not in case:
        diags, detail = evaluate(case)
        hit = want in diags if want else bool(diags)
        return dict(violates=bool(hit), detail=dict(diagnoses=diags, **detail))
    out = Out()
    run_unit(case['unit'], out, case.get('tier', 'quick'), case.get('seed', 0))
    hits = [v for v in out.violations if not want or v['diagnosis'] == want]
    return dict(violates=bool(hits), detail=[v['message'] for v in hits][:3])

# -- selfcheck


def unit_selfcheck(ctx, unit, rng):
    out = ctx.out
    from pytableaux.lang import Parser
    m = monitor()
    assert m.ncodes >= 30, f'only {m.ncodes} code objects of parsing.py are monitored'
    # the counter counts, the budget stops
    p = Parser('polish')
    o, ops = run_parse(p, 'KaNb')
    assert o[0] == 'OK' and ops > 20, (o, ops)
    m2 = monitor()
    m2.n = 0
    m2.limit = 5
    try:
        try:
            p('KaNb')
            stopped = False
        except OpBudgetExceeded:
            stopped = True
    finally:
        m2.limit = None
    assert stopped, 'budget callback does not stop the parser'
    o, ops = run_parse(p, 'Na', thread=True, pad=3)
    assert o[0] == 'OK', o
    # flat form agrees with REF-SYN on well- and ill-formed sentences
    G = g.SentenceGen(rng, 5)
    kinds = {'free variable': 'free variable', 're-bound variable': 're-bound', 'vacuous quantifier': 'vacuous',
             'arity': 'arity ', 'operator arity': 'operator '}
    n_bad = 0
    for i in range(3000):
        G.arity = {}
        t = G.sentence()
        if i % 2:
            t = _damage(rng, t)
        want = set()
        for msg in syn.wellformed_problems(t):
            for k, pre in kinds.items():
                if msg.startswith(pre):
                    want.add(k)
        have = set(g.flat_problems(g.flatten(t)))
        assert want == have, (t, want, have)
        n_bad += bool(want)
        if not want:
            lib = syn.to_lib(t)
            assert g.flat_from_lib(lib) == g.flatten(syn.from_lib(lib)) == g.flatten(t), t
    assert n_bad > 300, n_bad
    out.case(('selfcheck',))
    out.count('selfcheck_ok')


def _damage(rng, t):
    "Make a sentence (probably) ill-formed: free / vacuous / re-bound variable or wrong arity."
    k = rng.randrange(4)
    x = ('v', rng.randrange(4), rng.choice((0, 1)))
    if k == 0:
        return syn.op('Conjunction', t, syn.papp((0, 0, 1), x))
    if k == 1:
        return syn.quant('Universal', x, t)
    if k == 2:
        return syn.quant('Universal', x, syn.op('Disjunction', syn.papp((0, 0, 1), x),
                                                syn.quant('Existential', x, syn.papp((0, 0, 1), x))))
    return syn.op('Conjunction', t, ('P', (0, 0, 2), (('c', 0, 0),)))

# -- exhaustive short strings


def _sessions_for(notation, idx, life=200):
    store, auto = CONFIGS[idx % len(CONFIGS)]
    return [Session(notation, STORES['empty'], True, 1, 'fresh-empty-auto'),
            Session(notation, STORES[store], auto, life, f'{store}-{"auto" if auto else "noauto"}')]


def unit_exh3(ctx, unit, rng):
    A = g.Alphabet(unit['notation'])
    chars = A.chars + g.FOREIGN
    ctx.out.cover('alphabet_size', f'{unit["notation"]}:{len(chars)}')
    firsts = chars[unit['part']::unit['parts']]
    sess = _sessions_for(unit['notation'], unit['part'])
    for s in sess:
        ctx.out.cover('configs', f'{s.notation}:{s.tag}')
    strings = []
    if unit['part'] == 0:
        strings.append('')
    for f in firsts:
        strings.append(f)
        for rest in g.all_strings(chars, 2, 1):
            strings.append(f + rest)
    for i, s in enumerate(strings):
        check_string(ctx, sess[0], s, 'exh3', shadow=(i % 4 == 0))
        check_string(ctx, sess[1], s, 'exh3')
    ctx.out.sample(dict(family='exh3', notation=unit['notation'], first_chars=''.join(firsts), strings=len(strings)))


def unit_exh5(ctx, unit, rng):
    A = g.Alphabet(unit['notation'])
    chars = A.reduced() + g.FOREIGN[:1]
    ctx.out.cover('reduced_alphabet', f'{unit["notation"]}:{"".join(chars)}')
    sess = _sessions_for(unit['notation'], unit['part'])
    for s in sess:
        ctx.out.cover('configs', f'{s.notation}:{s.tag}')
    n = 0
    for length in (4, 5):
        total = len(chars) ** length
        lo = total * unit['part'] // unit['parts']
        hi = total * (unit['part'] + 1) // unit['parts']
        for i, s in enumerate(g.nth_strings(chars, length, lo, hi)):
            check_string(ctx, sess[0], s, 'exh5', shadow=False)
            check_string(ctx, sess[1], s, 'exh5')
            n += 1
    ctx.out.sample(dict(family='exh5', notation=unit['notation'], part=unit['part'], strings=n))

# -- random strings


def unit_rand(ctx, unit, rng):
    alph = {n: g.Alphabet(n) for n in NOTATIONS}
    sess = {}
    for n in NOTATIONS:
        for j, (store, auto) in enumerate(CONFIGS):
            sess[n, j] = Session(n, STORES[store], auto, 200, f'{store}-{"auto" if auto else "noauto"}')
            ctx.out.cover('configs', f'{n}:{sess[n, j].tag}')
    for i in range(unit['n']):
        n = NOTATIONS[i % 2]
        A = alph[n]
        x = rng.random()
        if x < 0.35:
            s = g.random_string(rng, A.chars, 60)
        elif x < 0.5:
            s = g.random_string(rng, A.reduced(), 12, foreign=0.01)
        else:
            s = g.token_soup(rng, A, 60)
        ses = sess[n, rng.randrange(len(CONFIGS))]
        check_string(ctx, ses, s, 'rand')
        if i % 500 == 0:
            ctx.out.sample(dict(family='rand', notation=n, input=s), limit=2)

# -- grammar-derived, mutated


def _render(rng, t, A, notation):
    zeros = rng.random() < 0.2
    ws = rng.choice((0.0, 0.0, 0.15, 0.5))
    deep = rng.random() < 0.2
    if notation == 'polish':
        toks = g.polish_tokens(t, A, rng, zeros)
    else:
        mode = rng.randrange(3)
        infix = (lambda x: False) if mode == 0 else (lambda x: x[1] == syn.IDENTITY) if mode == 1 else \
            (lambda x: rng.random() < 0.6)
        toks = g.standard_tokens(t, A, infix=infix, outer=rng.random() < 0.5, rng=rng, zeros=zeros)
    return g.join_tokens(toks, A, rng, ws, deep)


def _stores_for(rng, t):
    "matching / conflicting / partial declaration for the predicates of one sentence."
    own = sorted(p for p in syn.predicates(t) if p[0] >= 0)
    x = rng.randrange(4)
    if x == 0:
        return 'matching', [list(p) for p in own]
    if x == 1:
        return 'conflicting', [[p[0], p[1], p[2] % 3 + 1] for p in own]
    if x == 2:
        return 'partial', [list(p) for p in own[::2]]
    return 'big-arity', [[p[0], p[1], p[2] + 3] for p in own]


def unit_mut(ctx, unit, rng):
    alph = {n: g.Alphabet(n) for n in NOTATIONS}
    longs = {}
    for n in NOTATIONS:
        longs[n] = [Session(n, STORES['empty'], True, 200, 'empty-auto'),
                    Session(n, STORES['decl'], False, 200, 'decl-noauto'),
                    Session(n, STORES['decl2'], True, 200, 'decl2-auto')]
    G = g.SentenceGen(rng, 4)
    for i in range(unit['n'] // 2):
        n = NOTATIONS[i % 2]
        A = alph[n]
        if i % 7 == 0:
            G.arity = {}
        t = G.sentence()
        if i % 3 == 2:
            # deliberately ill-formed: free / vacuous / re-bound variable, arity clash; rendered without mutation
            tag, t2 = g.damage(rng, t, G.arity)
            s = _render(rng, t2, A, n)
            k = 0
            ctx.out.cover('ill_formed_inputs', tag)
            ctx.out.count('ill_formed_inputs')
        else:
            s = _render(rng, t, A, n)
            k = rng.choice((0, 1, 1, 2, 2, 3))
            s = g.mutate(rng, s, A.chars, k)
            ctx.out.cover('mutations', k)
        kind, store = _stores_for(rng, t)
        auto = rng.random() < 0.5
        ctx.out.cover('configs', f'{n}:{kind}-{"auto" if auto else "noauto"}')
        check_string(ctx, Session(n, store, auto, 1, kind), s, 'mut', shadow=(i % 3 == 0))
        check_string(ctx, rng.choice(longs[n]), s, 'mut')
        if i % 500 == 0:
            ctx.out.sample(dict(family='mut', notation=n, sentence=syn.show(t), mutations=k, input=s), limit=2)

# -- long sequences on one parser


def unit_seq(ctx, unit, rng):
    alph = {n: g.Alphabet(n) for n in NOTATIONS}
    for q in range(unit['seqs']):
        n = NOTATIONS[q % 2]
        A = alph[n]
        store, auto = CONFIGS[(q // 2) % len(CONFIGS)]
        if q % 3 == 0:
            store, auto = 'empty', True
        ses = Session(n, STORES[store], auto, 10 ** 9, f'{store}-{"auto" if auto else "noauto"}')
        ctx.out.cover('configs', f'{n}:{ses.tag}')
        # few symbols, so that arities clash over time
        G = g.SentenceGen(rng, 3, subs=(0, 1, 2), weights=(4, 2, 1))
        for i in range(200):
            if rng.random() < 0.25:
                G.arity = {}
            x = rng.random()
            if x < 0.8:
                s = _render(rng, G.sentence(), A, n)
                if rng.random() < 0.35:
                    s = g.mutate(rng, s, A.chars, rng.choice((1, 2)))
            elif x < 0.9:
                s = g.token_soup(rng, A, 30)
            else:
                s = rng.choice(ses.history) if ses.history else ''
            check_string(ctx, ses, s, 'seq')
        ctx.out.count('sequences_of_200')
        ctx.out.sample(dict(family='seq', notation=n, config=ses.tag, store_after=len(specs_of(ses.parser.predicates)),
                            last_input=ses.history[-1]), limit=2)

# -- pathological inputs (one unit each: a crash only kills that unit)


def _vars(A, k):
    "k distinct variables as character lists"
    out = []
    for i in range(k):
        out.append(A.coord(A.var[i % 4], i // 4))
    return out


def _balanced(A, leaves, infix):
    "balanced binary conjunction tree over the given leaf strings"
    level = list(leaves)
    op = A.op['Conjunction']
    while len(level) > 1:
        nxt = []
        for i in range(0, len(level) - 1, 2):
            if infix:
                nxt.append(A.popen + level[i] + op + level[i + 1] + A.pclose)
            else:
                nxt.append(op + level[i] + level[i + 1])
        if len(level) % 2:
            nxt.append(level[-1])
        level = nxt
    return level[0]


def _path(A, which):
    std = A.infix
    neg, conj = A.op['Negation'], A.op['Conjunction']
    at, c0, c1, F, uq = A.atom[0], A.const[0], A.const[1], A.pred[0], A.quant['Universal']
    d1 = A.digit[1]
    if which == 'deep-unary':
        return [neg * 5000 + at, A.op['Possibility'] * 5000 + F + c0]
    if which == 'deep-quant':
        vs = [''.join(v) for v in _vars(A, 1500)]
        return [''.join(uq + v for v in vs) + F + vs[-1], ''.join(uq + v for v in vs) + F + ''.join(vs)]
    if which == 'deep-binary-right':
        return [(A.popen + at + conj) * 1200 + at + A.pclose * 1200 if std else (conj + at) * 3000 + at]
    if which == 'deep-binary-left':
        return [A.popen * 1200 + at + (conj + at + A.pclose) * 1200 if std else conj * 3000 + at * 3001]
    if which == 'digits':
        v = A.var[0]
        return [at + d1 * 5000, F + d1 * 5000 + c0, F + c0 + d1 * 5000, uq + v + d1 * 5000 + F + v + d1 * 5000,
                at + A.digit[0] * 5000, at + (d1 + A.ws[0]) * 5000, at + d1 * 4300, at + d1 * 4301,
                neg + at + d1 * 4400 + c0]
    if which == 'parens':
        if std:
            return [A.popen * 2000, A.pclose * 2000, A.popen * 2000 + A.pclose * 2000, A.popen * 2000 + at,
                    (A.popen + A.pclose) * 2000, A.popen * 2000 + at + conj + at + A.pclose * 2000]
        return [conj * 2000, neg * 2000, uq * 2000, F * 2000]
    if which == 'chains':
        return [(at + conj) * 5000 + at, (at + A.ws[0]) * 5000, (F + c0) * 5000,
                (c0 + A.syspred['Identity'] + c1 + conj) * 3000 + at if std else (conj + A.syspred['Identity'] + c0 + c1) * 3000 + at]
    if which == 'long-junk':
        return [A.ws[0] * 20000 + at + A.ws[0] * 20000, 'é' * 20000, at + '\x00' * 20000, A.ws[0] * 50000,
                at + A.ws[0] * 20000 + at]
    if which == 'wide-balanced':
        leaves = [A.atom[i % 5] + (str(i // 5) if i >= 5 else '') for i in range(2048)]
        good = _balanced(A, leaves, std)
        return [good, good + at, good[:-1]]
    if which == 'many-preds':
        leaves = [F + str(i) + c0 for i in range(1, 1500)]
        clash = [F + str(i % 700 + 1) + c0 * (1 + (i >= 700)) for i in range(1400)]
        return [_balanced(A, leaves, std), _balanced(A, clash, std)]
    if which == 'huge-arity':
        res = [F + c0 * 5000, F + c0 * 5000 + at]
        if std:
            res += [c0 + F + c1 * 5000, c0 + A.syspred['Identity'] + c1 * 5000]
        return res
    raise KeyError(which)


PATHOLOGICAL = ('deep-unary', 'deep-quant', 'deep-binary-right', 'deep-binary-left', 'digits', 'parens', 'chains',
                'long-junk', 'wide-balanced', 'many-preds', 'huge-arity')


def unit_path(ctx, unit, rng):
    A = g.Alphabet(unit['notation'])
    out = ctx.out
    timeouts = 0
    for j, s in enumerate(_path(A, unit['which'])):
        for store, auto in (('empty', True), ('decl', False)):
            if timeouts >= 2:
                out.case(None)
                out.inconc('skipped-after-timeouts')
                continue
            ses = Session(unit['notation'], STORES[store], auto, 1, f'{store}-{"auto" if auto else "noauto"}')
            o = check_string(ctx, ses, s, 'path:' + unit['which'], thread=True, shadow=(store == 'empty'))
            out.count('deep_inputs_run')
            out.cover('pathological', f'{unit["notation"]}:{unit["which"]}:{j}:{short(o)}')
            if o[0] == 'TIMEOUT':
                timeouts += 1
                break
        out.sample(dict(family='path', notation=unit['notation'], which=unit['which'], input=summary(s)), limit=3)

# -- depth sweeps around the recursion limit


def _sweep_string(A, which, k):
    std = A.infix
    neg, conj = A.op['Negation'], A.op['Conjunction']
    at, c0, F = A.atom[0], A.const[0], A.pred[0]
    if which == 'unary-atom':
        return neg * k + at
    if which == 'unary-atom-sub':
        return neg * k + at + A.digit[1] * 2
    if which == 'unary-pred':
        return A.op['Necessity'] * k + F + c0
    if which == 'unary-ident':
        return neg * k + (c0 + A.syspred['Identity'] + c0 if std else A.syspred['Identity'] + c0 + c0)
    if which == 'quant':
        vs = [''.join(v) for v in _vars(A, k)]
        return ''.join(A.quant['Existential'] + v for v in vs) + F + ''.join(vs)      # arity k: every variable used
    if which == 'binary-right':
        return (A.popen + at + conj) * k + at + A.pclose * k if std else (conj + at) * k + at
    if which == 'binary-left':
        return A.popen * k + at + (conj + at + A.pclose) * k if std else conj * k + at * (k + 1)
    if which == 'mixed':
        q = A.quant['Universal']
        v = ''.join(A.coord(A.var[0], 0))
        body = (A.popen + F + v + conj + at + A.pclose) if std else (conj + F + v + at)
        return neg * k + q + v + body
    raise KeyError(which)


def _sweep_extra(A, which, k):
    "Further strings of the same nesting depth (not accepted ones: the depth limit is located with the main string)."
    if which != 'quant' or k < 1:
        return []
    F, c0 = A.pred[0], A.const[0]
    vs = [''.join(v) for v in _vars(A, k)]
    pre = ''.join(A.quant['Existential'] + v for v in vs)
    ident = A.syspred['Identity']
    return [pre + F + vs[-1], pre + A.pred[1] + vs[-1] + c0 + c0,
            pre + (vs[-1] + ident + vs[-1] if A.infix else ident + vs[-1] + vs[-1])]


SWEEPS = ('unary-atom', 'unary-atom-sub', 'unary-pred', 'unary-ident', 'quant', 'binary-right', 'binary-left', 'mixed')


def unit_sweep(ctx, unit, rng):
    A = g.Alphabet(unit['notation'])
    out = ctx.out
    n, which = unit['notation'], unit['which']

    def outcome(k, pad=0):
        p = make_parser(n, [], True)
        return run_parse(p, _sweep_string(A, which, k), pad, True)[0]
    # smallest nesting depth that is not accepted any more
    lo, hi = 1, 2
    while hi < 6000 and outcome(hi)[0] == 'OK':
        lo, hi = hi, hi * 2
    if hi >= 6000:
        out.note(f'sweep {n}:{which}: depth {hi} still accepted')
    while lo + 1 < hi:
        mid = (lo + hi) // 2
        if outcome(mid)[0] == 'OK':
            lo = mid
        else:
            hi = mid
    out.cover('depth_limits', f'{n}:{which}:first-rejected-depth={hi}')
    slow = A.infix and which.startswith('binary')      # quadratic look-ahead: ~1 s per parse at this depth
    for k in range(max(1, hi - (3 if slow else 8)), hi + (2 if slow else 4)):
        for pad in range(4 if slow else 12):
            for s in [_sweep_string(A, which, k)] + _sweep_extra(A, which, k):
                ses = Session(n, [], True, 1, 'empty-auto')
                o = check_string(ctx, ses, s, 'sweep:' + which, thread=True, pad=pad, shadow=False)
                out.count('sweep_points')
                out.cover('sweep_outcomes', f'{n}:{which}:{short(o)}')
    out.sample(dict(family='sweep', notation=n, which=which, first_rejected_depth=hi), limit=2)
