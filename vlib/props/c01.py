"""C01 - a 'valid' verdict is sound in every logic."""
from __future__ import annotations

import random

from .. import gen, lib, proofcheck as pc, runs, tabs, workload
from ..ref import sem as rsem

ID = 'C01'
META = dict(
    level='exploration',
    exhaustive=False,
    rule=('per logic: hostile shapes (biconditionals in every polarity, constants out of order, identity beside modal '
          'predications, several necessity nodes, successor-less worlds ...), the ~110 named example arguments, rule-directed '
          'arguments (every operator/quantifier x negated x designation shape on the trunk, in every fragment the logic '
          'interprets) and seeded random arguments over the propositional / modal / first-order / first-order-modal fragments; each '
          'run under a rotating configuration (group optim x rank optim x build|step loop x tie-break order seed; thorough: every '
          'case under 4 configurations). Every VALID verdict is attacked by REF-SEARCH (bounded countermodel search in the '
          'independent reference semantics); a found countermodel is re-verified and the culprit rule located by the '
          'shadow-model invariant. non-trivial = distinct (logic, argument) with verdict VALID, >= 2 rule applications and the '
          'conclusion not among the premises.'),
    assumptions=['REF-SEM semantics incl. lattice reading of the FDE family',
                 'countermodel search is bounded (worlds <= 2/3, extra constants <= 1/2, sampled above 3000/20000 interpretations): '
                 'a VALID verdict that survives is "not refuted within the bound"',
                 'monitoring cap of 300/600 steps: capped runs have no verdict and are skipped (counted)'],
    min_events={'quick': {'valid_verdicts_checked': 1500, 'logics': 52, 'runs': 6000},
                'thorough': {'valid_verdicts_checked': 20000, 'logics': 52, 'runs': 60000}},
    budget=dict(quick=1500, thorough=7200),
    unit_timeout=dict(quick=900, thorough=3000),
)

NRANDOM = dict(quick=70, thorough=900)
SPLIT = dict(quick=1, thorough=4)


def units(tier, seed):
    return [dict(name=f'proofs:{n}:{k}', logic=n, part=k, parts=SPLIT[tier])
            for n in lib.STATIC_LOGICS for k in range(SPLIT[tier])]


def run_unit(unit, out, tier, seed):
    name = unit['logic']
    if name not in lib.logic_names():
        out.note(f'logic {name} no longer registered')
        return
    S = rsem.sem(name)
    desig = tabs.uses_designation(name)
    out.count('logics') if unit['part'] == 0 else None
    out.cover('logics', name)
    rng = random.Random(f'{seed}:{name}')
    srng = random.Random(f'{seed}:{name}:search')
    allcases = list(workload.cases(name, desig, rng, n_random=NRANDOM[tier],
                                   n_rule_rounds=1 if tier == 'quick' else 3))
    mine = allcases[unit['part']::unit['parts']]
    nconf = 1 if tier == 'quick' else 4
    for i, (label, frag, arg) in enumerate(mine):
        for j in range(nconf):
            cfg, driver, order = workload.config_cycle(i * 5 + j * 3, seed)
            check(name, S, arg, cfg, driver, order, out, tier, srng, label, frag)
        if i % 40 == 5:
            out.sample(dict(logic=name, label=label, argument=gen.show_arg(arg)), limit=3)


def check(name, S, arg, cfg, driver, order, out, tier, srng, label='', frag=''):
    r = pc.run_cfg(name, arg, cfg, driver, order, tier)
    out.count('runs')
    out.count(f'outcome:{r.outcome}')
    out.cover('fragments', frag)
    out.case((name, gen.arg_key(arg)), nontrivial=(r.outcome == 'VALID' and pc.nontrivial(r, arg)))
    if r.outcome == 'ERROR':
        out.count('errored_runs_left_to_C09')
        return
    for e in r.tab.history:
        out.cover('rules_applied', e.rule.name)
    if r.outcome != 'VALID':
        return
    v = pc.monitor_valid(name, S, arg, r, cfg, driver, order, out, tier, srng, label)
    if v:
        pc.emit(out, v)


def replay(wit):
    from ..worker import Out
    out = Out()
    c = wit['case']
    S = rsem.sem(c['logic'])
    check(c['logic'], S, gen.arg_from_json(c['argument']), c['cfg'], c['driver'], c['order'], out, 'thorough',
          random.Random(0), c.get('label', ''))
    return dict(violates=bool(out.violations), detail=[v['message'][:600] for v in out.violations])
