"""C12 - sentences and arguments survive a write/parse round trip.

Monitors (all comparisons on REF-SYN tuples read with ``syn.from_lib``, never library ``==``):

* ``polish-roundtrip``: LexWriter(polish, text, ascii)(s) parsed by a fresh polish parser (auto_preds, or the
  sentence's predicates pre-declared) is the same sentence;
* ``argument-roundtrip``: ``Argument.from_argstr(a.argstr())`` and ``Argument(a.argstr())`` rebuild the argument;
* ``standard-denotation``: a string produced by an independent renderer over the standard parse-table alphabet
  (outer parentheses or not, extra whitespace, prefix / infix predications, explicit zero subscripts) parses to
  the sentence it denotes;
* ``injectivity``: per (notation, format, dialect, writer options) a dictionary rendering -> sentence; two
  REF-SYN-distinct sentences must never share a rendering.
"""
from __future__ import annotations

import itertools
import random

from .. import gen_syn as g
from ..ref import syn

ID = 'C12'

META = dict(
    level='exploration',
    exhaustive=False,
    rule=('sentences of the parsers\' language from a seeded generator over the full vocabulary (10 operators, both quantifiers, '
          'Identity/Existence and user predicates of arity 1-3, every index value, subscripts {0,1,2,9,10,11,99,100,12345}, nesting '
          'depth <= 5, thorough 7; closed, no vacuous or re-bound quantifier, one arity per predicate symbol per sentence/argument); '
          'arguments of 1..5 such sentences; every sentence up to depth 2 over a tiny vocabulary; near-collision families '
          '(subscripts glued to the next symbol, parenthesisation, nested unary operators incl. negated identity, predicate forms) '
          'rendered under every registered string table and every standard-writer option combination '
          '(drop_parens x identity_infix x max_infix in {0,3,4}). A case = one (monitor, sentence/argument/string); distinct sentences '
          'are distinct cases.'),
    assumptions=['REF-SYN (vlib/ref/syn.py) reads/builds library sentences faithfully',
                 'standard grammar as implemented and documented by lang/parsing.py: binary operator sentences parenthesised (outermost '
                 'pair optional), unary operators and quantifiers prefix, predications prefix or param-pred-params for arity >= 2, '
                 'whitespace between any two characters, subscript = maximal digit run (explicit 0 and leading zeros allowed)',
                 'injectivity is checked inside one unit (one dictionary per writer configuration per unit)'],
    min_events={
        'quick': dict(roundtrips_checked=25000, parses_returned=50000, standard_strings_checked=25000, arguments_checked=1500,
                      renderings_indexed=300000, collision_family_renderings=50000),
        'thorough': dict(roundtrips_checked=1400000, parses_returned=2800000, standard_strings_checked=1400000,
                         arguments_checked=100000, renderings_indexed=10000000, collision_family_renderings=50000)},
    budget=dict(quick=1500, thorough=7200),
    unit_timeout=dict(quick=900, thorough=3000),
)

# string tables known when the check was written (the driver does not import the library);
# workers compare with the live registry, unit inj:other takes whatever is new.
TABLES = [(n, f, d) for n in ('polish', 'standard')
          for f, d in (('text', 'ascii'), ('text', 'unicode'), ('html', 'html'), ('rst', 'rst'), ('latex', 'latex'))]
STD_OPTS = [dict(drop_parens=dp, identity_infix=ii, max_infix=mi)
            for dp in (True, False) for ii in (True, False) for mi in (0, 3, 4)]


def detuple(x):
    if isinstance(x, (list, tuple)):
        return tuple(detuple(y) for y in x)
    return x


def live_tables():
    from pytableaux.lang import Notation
    res = []
    for n in Notation:
        for f, ds in n.formats.items():
            for d in ds:
                res.append((str(n.name), str(f), str(d)))
    return sorted(res)


_writers = {}


def writer(notation, fmt, dialect, opts=None):
    from pytableaux.lang import LexWriter
    key = (notation, fmt, dialect, tuple(sorted((opts or {}).items())))
    w = _writers.get(key)
    if w is None:
        w = _writers[key] = LexWriter(notation=notation, format=fmt, dialect=dialect, **(opts or {}))
    return w


def fresh_parser(notation, mode, ts):
    "mode 'auto': empty store, auto_preds; 'declared': the sentences' own user predicates, auto_preds off."
    from pytableaux.lang import Parser, Predicates
    if mode == 'auto':
        return Parser(notation, auto_preds=True)
    own = sorted({p for t in ts for p in syn.predicates(t) if p[0] >= 0})
    return Parser(notation, Predicates(own), auto_preds=False)


def parse_outcome(parser, s):
    "-> ('same'|'different'|'raises:<Type>', detail)"
    try:
        r = parser(s)
    except Exception as e:      # the library call only
        return 'raises:' + type(e).__name__, repr(e)[:200]
    return 'returned', syn.from_lib(r)

# ---------------------------------------------------------------- forms of the own standard renderer


FORM_KEYS = ('outer', 'ws', 'deep', 'zeros', 'infix')


def random_form(rng):
    return dict(outer=rng.random() < 0.5,
                ws=rng.choice(('none', 'none', 'all', 'random')),
                deep=rng.random() < 0.15,
                zeros=rng.choice((False, False, False, 'explicit0', 'leading0', True)),
                infix=rng.choice(('none', 'identity', 'all', 'some')))


def render_form(t, A, form, rng=None):
    inf = form['infix']
    infix = ((lambda x: False) if inf == 'none' else (lambda x: x[1] == syn.IDENTITY) if inf == 'identity'
             else (lambda x: True) if inf == 'all' else (lambda x: rng.random() < 0.5))
    toks = g.standard_tokens(t, A, infix=infix, outer=form['outer'], rng=rng, zeros=form['zeros'])
    ws = form['ws']
    return g.join_tokens(toks, A, rng, 0 if ws == 'none' else 'all' if ws == 'all' else 0.3, form['deep'])


def deterministic(form):
    return form['ws'] != 'random' and form['zeros'] is not True and form['infix'] != 'some'


def form_tags(form):
    return dict(outer_parens=bool(form['outer']), whitespace=form['ws'] + ('+in-subscript' if form['deep'] and form['ws'] != 'none' else ''),
                zeros=str(form['zeros']), infix=form['infix'])

# ---------------------------------------------------------------- single-case evaluators (used by units and replay)


def eval_rt(t, mode):
    "Polish ascii round trip of one sentence. -> None | (diag, message)"
    lib = syn.to_lib(t)
    try:
        s = writer('polish', 'text', 'ascii')(lib)
    except Exception as e:
        return dict(clause='polish-roundtrip', outcome='writer-raises:' + type(e).__name__, parser=mode), repr(e)[:200]
    k, d = parse_outcome(fresh_parser('polish', mode, [t]), s)
    if k == 'returned' and d == t:
        return None
    out = k if k != 'returned' else 'different-sentence'
    return (dict(clause='polish-roundtrip', outcome=out, parser=mode),
            f'{syn.show(t)} written as {s!r} parses ({mode}) to ' + (syn.show(d) if k == 'returned' else d))


def eval_std(t, s, mode):
    "Standard-notation string ``s`` denotes ``t``. -> None | (diag, message)"
    k, d = parse_outcome(fresh_parser('standard', mode, [t]), s)
    if k == 'returned' and d == t:
        return None
    out = k if k != 'returned' else 'different-sentence'
    return (dict(clause='standard-denotation', outcome=out, parser=mode),
            f'{s!r} denotes {syn.show(t)} but parses ({mode}) to ' + (syn.show(d) if k == 'returned' else d))


def eval_arg(ts, via):
    "argstr round trip. ``via``: 'from_argstr' | 'call'. -> None | (diag, message)"
    from pytableaux.lang import Argument
    libs = [syn.to_lib(t) for t in ts]
    arg = Argument(libs[0], libs[1:])
    try:
        s = arg.argstr()
    except Exception as e:
        return dict(clause='argument-roundtrip', outcome='argstr-raises:' + type(e).__name__, via=via), repr(e)[:200]
    try:
        a2 = Argument.from_argstr(s) if via == 'from_argstr' else Argument(s)
        got = [syn.from_lib(x) for x in a2]
    except Exception as e:
        return (dict(clause='argument-roundtrip', outcome='raises:' + type(e).__name__, via=via),
                f'argstr {s!r}: {e!r}'[:300])
    if got == list(ts):
        return None
    return (dict(clause='argument-roundtrip', outcome='different-argument', via=via),
            f'argstr {s!r} rebuilds {[syn.show(x) for x in got]} instead of {[syn.show(x) for x in ts]}')


def render(cfg, t):
    notation, fmt, dialect, opts = cfg
    return writer(notation, fmt, dialect, opts)(syn.to_lib(t))


def eval_inj(cfg, a, b):
    if a == b:
        return None
    try:
        ra, rb = render(cfg, a), render(cfg, b)
    except Exception as e:
        return None
    if ra != rb:
        return None
    notation, fmt, dialect, opts = cfg
    return (dict(clause='injectivity', notation=notation, format=fmt, dialect=dialect, options=opts or {}),
            f'{notation}/{fmt}/{dialect} {opts or ""}: {syn.show(a)} and {syn.show(b)} both render as {ra!r}')

# ---------------------------------------------------------------- reporting


def count_case(out, key, nontrivial=True):
    "Count a case; at most 20000 distinct digests per unit go to the driver."
    if nontrivial and len(out.nontrivial) < 20000:
        out.case(key, nontrivial=True)
    else:
        out.case(None)
        if nontrivial:
            out.count('cases_beyond_digest_cap')


def shrink_rt(out, t, mode, diag):
    def fails(t2):
        r = eval_rt(t2, mode)
        return r is not None and r[0] == diag
    t2 = g.shrink_sentence(t, fails)
    r = eval_rt(t2, mode)
    d = dict(r[0], shape=g.skeleton(t2))
    return dict(kind='rt', sentence=t2, parser=mode), d, r[1], syn.size(t2)


def shrink_std(A, t, s, form, mode, diag):
    """Find a deterministic form under which the sentence still fails, then shrink the sentence; otherwise
    keep the string as generated."""
    def res_for(t2, f):
        return eval_std(t2, render_form(t2, A, f), mode)
    cands = []
    if deterministic(form):
        cands.append(dict(form))
    base = dict(form, ws='all' if form['ws'] == 'random' else form['ws'],
                zeros='explicit0' if form['zeros'] is True else form['zeros'],
                infix='all' if form['infix'] == 'some' else form['infix'])
    cands.append(base)
    if form['zeros'] is True:
        cands.append(dict(base, zeros='leading0'))
    if form['infix'] == 'some':
        cands.append(dict(base, infix='identity'))
    chosen = None
    for f in cands:
        r = res_for(t, f)
        if r is not None and r[0] == diag:
            chosen = f
            break
    if chosen is None:
        d = dict(diag, shape='(unshrunk)', **form_tags(form))
        return dict(kind='std', sentence=t, string=s, parser=mode), d, None, syn.size(t) + 1000
    # simplify the form, one key at a time
    for key, val in (('ws', 'none'), ('deep', False), ('zeros', False), ('infix', 'none'), ('outer', True)):
        if chosen[key] != val:
            f2 = dict(chosen, **{key: val})
            r = res_for(t, f2)
            if r is not None and r[0] == diag:
                chosen = f2
    t2 = g.shrink_sentence(t, lambda x: (lambda r: r is not None and r[0] == diag)(res_for(x, chosen)))
    s2 = render_form(t2, A, chosen)
    r = eval_std(t2, s2, mode)
    d = dict(r[0], shape=g.skeleton(t2), **form_tags(chosen))
    return dict(kind='std', sentence=t2, string=s2, parser=mode), d, r[1], syn.size(t2)


def shrink_inj(cfg, a, b):
    "Joint greedy shrinking of a colliding pair: variants of both members, smallest total first."
    def still(x, y):
        return x != y and eval_inj(cfg, x, y) is not None

    def measure(x, y):
        return (syn.size(x) + syn.size(y), g._weight(x) + g._weight(y))

    def variants(x):
        seen, res = {x}, [x]
        for v in g._variants(x):
            if v not in seen and g.in_language([v]):
                seen.add(v)
                res.append(v)
                if len(res) >= 60:
                    break
        return res
    checks = 0
    progress = True
    while progress and checks < 6000:
        progress = False
        cur = measure(a, b)
        pairs = [(measure(x, y), x, y) for x in variants(a) for y in variants(b)]
        pairs = sorted((p for p in pairs if p[0] < cur), key=lambda p: p[0])
        for _, x, y in pairs:
            checks += 1
            if still(x, y):
                a, b = x, y
                progress = True
                break
            if checks >= 6000:
                break
    r = eval_inj(cfg, a, b)
    d = dict(r[0], pair=sorted([g.skeleton(a), g.skeleton(b)]))
    return dict(kind='inj', cfg=list(cfg), a=a, b=b), d, r[1], syn.size(a) + syn.size(b)


# ---------------------------------------------------------------- monitors over one sentence


class Index:
    "rendering -> sentence, per writer configuration (this unit)."

    def __init__(self, out):
        self.out = out
        self.maps = {}
        self.failed = set()

    def add(self, cfg_key, cfg, t, counter='renderings_indexed'):
        out = self.out
        try:
            s = render(cfg, t)
        except Exception as e:
            k = (cfg_key, type(e).__name__)
            if k not in self.failed:
                self.failed.add(k)
                out.note(f'writer {cfg_key} raises {e!r} on {syn.show(t)}'[:300])
            out.count('writer_raises')
            return
        out.count(counter)
        m = self.maps.setdefault(cfg_key, {})
        prev = m.setdefault(s, t)
        if prev != t:
            case, d, msg, size = shrink_inj(cfg, prev, t)
            out.violation('injectivity', case, d, msg, size=size)


def cfg_key(cfg):
    n, f, d, o = cfg
    return f'{n}/{f}/{d}' + ('' if not o else '/' + ','.join(f'{k}={v}' for k, v in sorted(o.items())))


def default_cfgs(tables):
    return [(n, f, d, None) for n, f, d in tables]


def check_sentence(out, A, idx, t, rng, i, cfgs, feats):
    "All per-sentence monitors. ``cfgs``: writer configurations to index the sentence under."
    feats |= g.features(t)
    try:
        lib = syn.to_lib(t)
        back = syn.from_lib(lib)
    except Exception as e:
        out.inconc('construct-raises')
        out.note(f'constructing {syn.show(t)} raises {e!r}'[:300])
        return
    if back != t:
        out.inconc('construct-mismatch')
        out.note(f'constructing {syn.show(t)} gives {syn.show(back)}'[:300])
        return
    count_case(out, ('sentence', t), syn.size(t) > 1)
    # (1) polish ascii round trip
    mode = 'auto' if i % 2 == 0 else 'declared'
    r = eval_rt(t, mode)
    out.count('roundtrips_checked')
    if r is None:
        out.count('parses_returned')
    else:
        if r[0]['outcome'] == 'different-sentence':
            out.count('parses_returned')
        case, d, msg, size = shrink_rt(out, t, mode, r[0])
        out.violation('polish-roundtrip', case, d, msg, size=size)
    # (2) the standard parser on an independently rendered string
    form = random_form(rng)
    mode = 'auto' if (i // 2) % 2 == 0 else 'declared'
    s = render_form(t, A, form, rng)
    r = eval_std(t, s, mode)
    out.count('standard_strings_checked')
    for k, v in form_tags(form).items():
        feats.add(('std-' + k, v))
    feats.add(('parser-mode', mode))
    if r is None:
        out.count('parses_returned')
    else:
        if r[0]['outcome'] == 'different-sentence':
            out.count('parses_returned')
        case, d, msg, size = shrink_std(A, t, s, form, mode, r[0])
        out.violation('standard-denotation', case, d, msg or r[1], size=size)
    # (3) injectivity dictionaries
    for cfg in cfgs:
        idx.add(cfg_key(cfg), cfg, t)


def flush_features(out, feats):
    for k, v in feats:
        out.cover(k, v)

# ---------------------------------------------------------------- units


def units(tier, seed):
    thorough = tier == 'thorough'
    us = []
    for n, f, d in TABLES:
        us.append(dict(name=f'inj:{n}:{f}:{d}', fam='inj', table=[n, f, d]))
    us.append(dict(name='inj:other', fam='inj', table=None))
    nrt, per = (12, 2000) if not thorough else (144, 10000)
    for i in range(nrt):
        us.append(dict(name=f'rt:{i}', fam='rt', n=per, depth=7 if thorough else 5))
    na, pera = (4, 500) if not thorough else (24, 4400)
    for i in range(na):
        us.append(dict(name=f'arg:{i}', fam='arg', n=pera, depth=5 if thorough else 4))
    ns = 4 if not thorough else 8
    for i in range(ns):
        us.append(dict(name=f'small:{i}', fam='small', part=i, parts=ns, depth=2))
    return us


def run_unit(unit, out, tier, seed):
    rng = random.Random(f'{seed}:{unit["name"]}')
    out.cover('families', unit['fam'])
    globals()['unit_' + unit['fam']](unit, out, tier, rng)


def _tables(out):
    live = live_tables()
    for t in live:
        out.cover('string_tables', '/'.join(t))
    return live


def unit_rt(unit, out, tier, rng):
    A = g.Alphabet('standard')
    live = _tables(out)
    idx = Index(out)
    feats = set()
    G = g.SentenceGen(rng, unit['depth'], p_leaf=0.12)
    base = default_cfgs(live)
    std_tabs = [t for t in live if t[0] == 'standard']
    for i in range(unit['n']):
        G.arity = {}
        t = G.sentence()
        extra = []
        if std_tabs:
            n, f, d = std_tabs[i % len(std_tabs)]
            extra.append((n, f, d, STD_OPTS[(i // len(std_tabs)) % len(STD_OPTS)]))
        check_sentence(out, A, idx, t, rng, i, base + extra, feats)
        if i % 400 == 0:
            out.sample(dict(family='rt', sentence=syn.show(t), size=syn.size(t), depth=syn.depth(t)), limit=2)
    flush_features(out, feats)


def unit_small(unit, out, tier, rng):
    A = g.Alphabet('standard')
    live = _tables(out)
    idx = Index(out)
    feats = set()
    sents = g.small_sentences(unit['depth'])
    base = default_cfgs(live)
    mine = sents[unit['part']::unit['parts']]
    for i, t in enumerate(mine):
        check_sentence(out, A, idx, t, rng, i, base, feats)
    out.count('small_sentences', len(mine))
    out.sample(dict(family='small', total=len(sents), this_unit=len(mine)))
    flush_features(out, feats)


def unit_arg(unit, out, tier, rng):
    feats = set()
    for i in range(unit['n']):
        G = g.SentenceGen(rng, unit['depth'], p_leaf=0.15)
        k = rng.choice((1, 1, 2, 3, 3, 4, 5))
        ts = [G.sentence() for _ in range(k)]
        if not g.in_language(ts):
            out.inconc('generator-clash')
            continue
        for t in ts:
            feats |= g.features(t)
        feats.add(('argument-size', k))
        count_case(out, ('argument', tuple(ts)))
        for via in ('from_argstr', 'call'):
            r = eval_arg(ts, via)
            out.count('arguments_checked')
            if r is None:
                out.count('parses_returned', k)
                continue
            diag = r[0]

            def fails(ts2):
                r2 = eval_arg(ts2, via)
                return r2 is not None and r2[0] == diag
            # drop premises, then shrink every member
            ts2 = list(ts)
            j = len(ts2) - 1
            while j >= 1:
                cand = ts2[:j] + ts2[j + 1:]
                if fails(cand):
                    ts2 = cand
                j -= 1
            for j in range(len(ts2)):
                ts2[j] = g.shrink_sentence(
                    ts2[j], lambda x: g.in_language(ts2[:j] + [x] + ts2[j + 1:]) and fails(ts2[:j] + [x] + ts2[j + 1:]),
                    budget=150)
            r2 = eval_arg(ts2, via)
            d = dict(r2[0], shape=[g.skeleton(x) for x in ts2])
            out.violation('argument-roundtrip', dict(kind='arg', sentences=ts2, via=via), d, r2[1],
                          size=sum(syn.size(x) for x in ts2))
        if i % 200 == 0:
            out.sample(dict(family='arg', sentences=[syn.show(t) for t in ts]), limit=2)
    flush_features(out, feats)


def unit_inj(unit, out, tier, rng):
    live = _tables(out)
    if unit['table'] is None:
        tabs = [t for t in live if t not in [tuple(x) for x in TABLES]]
        missing = [t for t in TABLES if tuple(t) not in live]
        if missing:
            out.note(f'string tables no longer registered: {missing}')
        if not tabs:
            out.case(('inj-other', 'nothing new'), nontrivial=False)
            return
        out.note(f'new string tables: {tabs}')
    else:
        tabs = [tuple(unit['table'])]
        if tabs[0] not in live:
            out.note(f'string table {tabs[0]} not registered')
            out.inconc('table-missing')
            return
    idx = Index(out)
    feats = set()
    fams = g.collision_families()
    small = g.small_sentences(2)
    G = g.SentenceGen(rng, 5, p_leaf=0.12)
    rand = []
    for _ in range(1500 if tier != 'thorough' else 8000):
        G.arity = {}
        rand.append(G.sentence())
    for n, f, d in tabs:
        cfgs = [(n, f, d, None)] if n != 'standard' else [(n, f, d, o) for o in STD_OPTS]
        for cfg in cfgs:
            key = cfg_key(cfg)
            out.cover('writer_configs', key)
            for name, ts in fams.items():
                out.cover('collision_families', f'{name}:{len(ts)}')
                for t in ts:
                    count_case(out, ('inj', key, t))
                    idx.add(key, cfg, t, 'collision_family_renderings')
                    out.count('renderings_indexed')
            for t in small:
                count_case(out, ('inj', key, t))
                idx.add(key, cfg, t)
            for t in rand:
                count_case(out, ('inj', key, t))
                idx.add(key, cfg, t)
    for t in itertools.chain(*fams.values()):
        feats |= g.features(t)
    flush_features(out, feats)
    out.sample(dict(family='inj', tables=['/'.join(t) for t in tabs], sentences_per_config=sum(map(len, fams.values())) + len(small) + len(rand)))

# ---------------------------------------------------------------- replay


def replay(wit):
    c = wit['case']
    kind = c['kind']
    want = wit.get('diagnosis') or {}
    if kind == 'rt':
        r = eval_rt(detuple(c['sentence']), c['parser'])
    elif kind == 'std':
        r = eval_std(detuple(c['sentence']), c['string'], c['parser'])
    elif kind == 'arg':
        r = eval_arg([detuple(t) for t in c['sentences']], c['via'])
    elif kind == 'inj':
        n, f, d, o = c['cfg']
        r = eval_inj((n, f, d, o), detuple(c['a']), detuple(c['b']))
    else:
        return dict(violates=False, detail=f'unknown case kind {kind}')
    if r is None:
        return dict(violates=False, detail='the monitor holds on the stored case')
    same = all(want.get(k) == v for k, v in r[0].items()) if want else True
    return dict(violates=True, detail=dict(diagnosis=r[0], message=r[1], same_diagnosis=same))
