"""C06 - new constants and new worlds are always fresh."""
from __future__ import annotations

import random
from itertools import product

from .. import contracts, gen, lib, proofcheck as pc, runs, tabs, workload
from ..ref import sem as rsem, syn

ID = 'C06'
META = dict(
    level='exploration',
    exhaustive=dict(quick=False, thorough=False),
    rule=('(i) histories: every sequence of <= 4 (thorough 5) operations over an alphabet of 7 sentence nodes (mentioning '
          'constants a, b, c, d-with-subscript in different orders), 3 world/access nodes and copy (of any live branch), then random '
          'sequences to depth 40, applied to real Branch objects; after each operation icontract post-conditions on '
          'Branch.append/copy/new_constant/new_world recompute the constants and worlds by walking every node of every live '
          'branch (copies and originals independently). (ii) proofs: first-order / modal arguments of the shared workload run '
          'with the contracts riding along (record mode) and a witness monitor on Rule BEFORE_APPLY/AFTER_APPLY: every '
          'existential-type, possibility-type or Serial step must introduce an item absent from the branch before the step. '
          'non-trivial = distinct histories with >= 2 operations incl. one that changes new_constant/new_world, and distinct '
          '(logic, argument) whose proof instantiated >= 1 witness.'),
    assumptions=['freshness is recomputed by walking node mappings (sentence constants via REF-SYN, world/world1/world2 keys)'],
    min_events={'quick': {'K3-append': 50000, 'K3-copy': 3000, 'witness_steps_checked': 2000, 'histories': 20000},
                'thorough': {'K3-append': 500000, 'K3-copy': 50000, 'witness_steps_checked': 25000, 'histories': 300000}},
    budget=dict(quick=1500, thorough=7200),
    unit_timeout=dict(quick=900, thorough=3000),
)

a, b, c = syn.const(0), syn.const(1), syn.const(2)
d9 = syn.const(3, 0)
a1 = syn.const(0, 1)
F, H = syn.pred(0, 0, 1), syn.pred(2, 0, 2)
ALPHA = [
    ('S', syn.papp(F, a), True, None), ('S', syn.neg(syn.papp(F, b)), True, None), ('S', syn.papp(F, c), False, None),
    ('S', syn.papp(H, c, a), True, None), ('S', syn.papp(H, b, d9), False, None), ('S', syn.papp(F, a1), True, None),
    ('S', syn.papp(H, d9, a1), True, 1),
    ('S', syn.atom(0), True, 0), ('S', syn.atom(0), False, 2), ('R', 0, 1), ('R', 1, 3), ('R', 2, 0),
    ('copy', 0), ('copy', 1),
]
NRANDOM = dict(quick=40, thorough=500)


def units(tier, seed):
    us = [dict(name=f'hist:exh:{i}', kind='exh', first=i) for i in range(len(ALPHA))]
    us += [dict(name=f'hist:rnd:{i}', kind='rnd', idx=i) for i in range(16)]
    us += [dict(name=f'proofs:{n}', kind='proofs', logic=n) for n in lib.STATIC_LOGICS if rsem.sem(n).quantified or rsem.sem(n).modal]
    return us


def apply_history(ops, out, raise_mode=True):
    """Apply ops to real branches; returns list of problems."""
    from pytableaux.proof import Branch
    contracts.reset()
    contracts.MODE['raise'] = False
    branches = [Branch()]
    changes = 0
    for op in ops:
        if op[0] == 'copy':
            k = op[1] % len(branches)
            nb = branches[k].copy(parent=branches[k])
            branches.append(nb)
        else:
            k = (len(branches) - 1) if op[-1] == 'last' else 0
            br = branches[-1] if len(branches) % 2 else branches[0]
            before = (br.new_constant(), br.new_world())
            br.append(tabs.mk_node(op))
            if (br.new_constant(), br.new_world()) != before:
                changes += 1
        # all live branches stay fresh (interference between copies shows here)
        for i, x in enumerate(branches):
            cn = syn.param_from_lib(x.new_constant())
            if cn in contracts.branch_constants(x):
                contracts.PROBLEMS.append(('K1:new_constant-occurs-on-branch', dict(where=f'branch {i} after {op[0]}')))
            if x.new_world() in contracts.branch_worlds(x):
                contracts.PROBLEMS.append(('K2:new_world-occurs-on-branch', dict(where=f'branch {i} after {op[0]}')))
            # the public views agree with a recomputation
            if {syn.param_from_lib(k_) for k_ in x.constants} != contracts.branch_constants(x):
                contracts.PROBLEMS.append(('constants-view-differs-from-walk', dict(where=f'branch {i}')))
            if set(x.worlds) != contracts.branch_worlds(x):
                contracts.PROBLEMS.append(('worlds-view-differs-from-walk', dict(where=f'branch {i}')))
    return list(contracts.PROBLEMS), changes


def op_json(op):
    return [op[0], tabs.show_spec(op)] if op[0] in ('S', 'R') else list(op)


def report_history(ops, probs, out):
    seen = set()
    for name, detail in probs:
        if name in seen:
            continue
        seen.add(name)
        out.violation('history', dict(ops=[ALPHA.index(o) for o in ops], shown=[op_json(o) for o in ops], detail=detail),
                      dict(clause=name, involves_copy=any(o[0] == 'copy' for o in ops)),
                      f'after {[op_json(o) for o in ops]}: {name} {detail}', size=len(ops))


def run_hist_unit(unit, out, tier, seed):
    contracts.install_branch_contracts()
    depth = 5 if tier == 'thorough' else 4
    if unit['kind'] == 'exh':
        first = ALPHA[unit['first']]
        for n in range(0, depth):
            for rest in product(ALPHA, repeat=n):
                ops = (first,) + rest
                probs, changes = apply_history(ops, out)
                out.case(('hist', tuple(ALPHA.index(o) for o in ops)), nontrivial=(len(ops) >= 2 and changes >= 1))
                out.count('histories')
                if probs:
                    report_history(ops, probs, out)
        out.sample(dict(history=[op_json(o) for o in (first,) + tuple(ALPHA[:2])]), limit=1)
    else:
        rng = random.Random(f'{seed}:{unit["name"]}')
        n = 4000 if tier == 'thorough' else 250
        for i in range(n):
            ops = tuple(rng.choice(ALPHA) for _ in range(rng.randint(5, 40)))
            probs, changes = apply_history(ops, out)
            out.case(('hist', tuple(ALPHA.index(o) for o in ops)), nontrivial=changes >= 1)
            out.count('histories')
            if probs:
                # shrink: drop operations while the same problem persists
                names = {p[0] for p in probs}
                cur = list(ops)
                j = 0
                while j < len(cur):
                    cand = cur[:j] + cur[j + 1:]
                    pr, _ = apply_history(tuple(cand), out) if cand else ([], 0)
                    if names & {p[0] for p in pr}:
                        cur = cand
                    else:
                        j += 1
                probs, _ = apply_history(tuple(cur), out)
                report_history(tuple(cur), probs, out)
        out.sample(dict(history=[op_json(o) for o in ops[:8]]), limit=1)
    for k, v in contracts.COUNTS.items():
        out.count(k, v)
    contracts.COUNTS.clear()


def witness_kind(rule):
    from pytableaux.proof import rules as prules
    from pytableaux.logics import kfde
    if isinstance(rule, prules.access.Serial):
        return 'world'
    if isinstance(rule, kfde.Rules.PossibilityDesignated):
        return 'world'
    if isinstance(rule, prules.NarrowQuantifierRule) and not isinstance(rule, prules.ExtendedQuantifierRule):
        return 'constant'
    return None


def run_proof(name, S, arg, cfg, driver, order, out, tier, label=''):
    from pytableaux.proof import Rule, Tableau
    contracts.reset()
    contracts.MODE['raise'] = False
    probs = []
    state = {}

    def tap(tab):
        def attach(_branch=None):
            if state.get('attached'):
                return
            state['attached'] = True
            for rule in tab.rules:
                kind = witness_kind(rule)
                if kind is None:
                    continue
                rule.on(Rule.Events.BEFORE_APPLY, lambda t, k=kind, r=rule: before(t, k, r))
                rule.on(Rule.Events.AFTER_APPLY, lambda t, k=kind, r=rule: after(tab, t, k, r))
        tab.on(Tableau.Events.BEFORE_TRUNK_BUILD, lambda t: attach())

    def before(target, kind, rule):
        br = target.branch
        state['pre'] = (contracts.branch_constants(br), contracts.branch_worlds(br), len(br), len(state.get('tab_len', ())))

    def after(tab, target, kind, rule):
        if target.get('flag'):
            return
        pre_c, pre_w, n0, _ = state['pre']
        out.count('witness_steps_checked')
        out.cover('witness_rules', rule.name)
        # nodes added by this step: on the target branch beyond n0, and on branches created from it
        groups = [list(target.branch)[n0:]]
        for b2 in tab:
            if b2.parent is target.branch and len(b2) > n0 and b2 is not target.branch:
                # created by this step iff it was not there before: approximate by step of last node
                if getattr(b2[-1], 'step', None) == tab.current_step or True:
                    groups.append(list(b2)[n0:])
        tnode = target.get('node')
        tsent = syn.from_lib(tnode['sentence']) if tnode is not None and tnode.get('sentence') is not None else None
        found = False
        for nodes in groups:
            for n in nodes:
                sp = tabs.node_spec(n)
                if kind == 'constant' and sp[0] == 'S':
                    new = syn.constants(sp[1]) - (syn.constants(tsent) if tsent else set())
                    for cst in new:
                        if cst in pre_c:
                            # an old constant in an added node that is not in the target sentence: only a problem if no
                            # fresh one is introduced at all (side-condition nodes may mention nothing)
                            continue
                        found = True
                if kind == 'world':
                    ws = set(tabs.node_spec(n)[1:3]) if sp[0] == 'R' else ({sp[3]} if sp[0] == 'S' and sp[3] is not None else set())
                    if any(w not in pre_w for w in ws if isinstance(w, int)):
                        found = True
        # branches created by this step that carry no witness (e.g. the second branch of a K3WQ rule) are fine;
        # the step as a whole must have introduced a fresh item somewhere
        if not found:
            probs.append(('witness-not-fresh', dict(rule=rule.name, kind=kind,
                                                     node=tabs.show_spec(tabs.node_spec(tnode)) if tnode is not None else None)))

    r = runs.run(name, arg, driver=driver, order=order, max_steps=pc.CAP[tier], tap=tap, **cfg)
    out.count('runs')
    for pname, detail in contracts.PROBLEMS:
        probs.append((pname, detail))
    seen = set()
    for pname, detail in probs:
        key = (pname, detail.get('rule'))
        if key in seen:
            continue
        seen.add(key)
        out.violation('proof', dict(logic=name, label=label, argument=gen.arg_to_json(arg), **pc.cfg_json(cfg, driver, order), detail=detail),
                      dict(clause=pname, rule=detail.get('rule'), family=S.base_name if detail.get('rule') else None),
                      f'{name}: {gen.show_arg(arg)}: {pname} {detail}', size=gen.arg_size(arg), env=pc.env_for(order))
    return r


def run_unit(unit, out, tier, seed):
    if unit['kind'] in ('exh', 'rnd'):
        return run_hist_unit(unit, out, tier, seed)
    name = unit['logic']
    if name not in lib.logic_names():
        out.note(f'logic {name} no longer registered')
        return
    contracts.install_branch_contracts()
    S = rsem.sem(name)
    desig = tabs.uses_designation(name)
    out.cover('logics', name)
    rng = random.Random(f'{seed}:{name}')
    cases = [c_ for c_ in workload.cases(name, desig, rng, n_random=NRANDOM[tier], with_examples=(tier == 'thorough'))
             if c_[1] in ('fo', 'modal', 'fomodal', 'hostile', 'example')]
    for i, (label, frag, arg) in enumerate(cases):
        cfg, driver, order = workload.config_cycle(i * 3 + 2, seed)
        before = out.counters.get('witness_steps_checked', 0)
        r = run_proof(name, S, arg, cfg, driver, order, out, tier, label)
        w = out.counters.get('witness_steps_checked', 0) - before
        out.case((name, gen.arg_key(arg)), nontrivial=w >= 1)
        if i % 40 == 11:
            out.sample(dict(logic=name, label=label, argument=gen.show_arg(arg), witness_steps=w), limit=2)
    for k, v in contracts.COUNTS.items():
        out.count(k, v)
    contracts.COUNTS.clear()


def replay(wit):
    from ..worker import Out
    out = Out()
    contracts.install_branch_contracts()
    c_ = wit['case']
    if wit['kind'] == 'history':
        ops = tuple(ALPHA[i] for i in c_['ops'])
        probs, _ = apply_history(ops, out)
        return dict(violates=any(p[0] == wit['diagnosis']['clause'] for p in probs), detail=probs[:3])
    S = rsem.sem(c_['logic'])
    run_proof(c_['logic'], S, gen.arg_from_json(c_['argument']), c_['cfg'], c_['driver'], c_['order'], out, 'thorough')
    return dict(violates=bool(out.violations), detail=[v['message'][:400] for v in out.violations])
