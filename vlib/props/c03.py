"""C03 - propositional arguments are decided exactly, without limits."""
from __future__ import annotations

import random

from .. import gen, lib, runs, shadow, tabs
from ..ref import search, sem as rsem, syn

ID = 'C03'
CAPS = dict(quick=250, thorough=1500)
CAP = 400
META = dict(
    level='exploration',
    exhaustive=False,
    rule=('per logic: EXHAUSTIVE slice = every argument (<=1 premise with <=1 connective, conclusion with <=1 connective) over '
          'atoms {a,b} and the 8 truth-functional operators (930 arguments; quick takes all 30 one-sentence arguments, a seeded third (sixth in the weak Kleene families) of the 900 pairs and every negated one-connective sentence under 7 literal premise patterns; thorough takes all, adds every one-sentence argument with '
          '<=2 connectives and runs all 4 optimisation combos) + seeded random arguments (depth<=4, <=3 premises, 3 atoms). Each is '
          'built without limits (monitoring cap only) and the verdict compared with the complete truth-table entailment of '
          'REF-SEM. non-trivial = distinct (logic, argument) with >= 2 connectives in total, or whose proof took >= 2 steps.'),
    assumptions=['REF-SEM truth tables', 'monitoring cap of 250 (thorough 1500) steps: a longer loop-free proof is counted inconclusive; non-termination is detected as the same rule expanding the same node twice on one branch'],
    min_events={'any': {'verdict_valid_confirmed': 1500, 'verdict_invalid_confirmed': 1500, 'logics': 52}},
    budget=dict(quick=1500, thorough=7200),
    unit_timeout=dict(quick=900, thorough=3000),
)


def units(tier, seed):
    return [dict(name=f'prop:{n}', logic=n) for n in lib.STATIC_LOGICS]


def connectives(arg):
    return sum(len(syn.operators(s)) for s in list(arg[0]) + [arg[1]])


def check_arg(name, S, arg, cfg, out, exhaustive_slice):
    r = _run_nolimit(name, arg, cfg)
    key = (name, gen.arg_key(arg))
    out.case(key, nontrivial=(connectives(arg) >= 2 or r.steps >= 2))
    case = dict(logic=name, argument=gen.arg_to_json(arg), cfg=cfg)
    size = gen.arg_size(arg)
    if r.outcome == 'ERROR':
        out.violation('raised', case, dict(clause='build-raised', family=S.base_name, error=r.error['type'], site=r.error['site']),
                      f'{name}: {gen.show_arg(arg)} raised {r.error}', size=size)
        return
    tab = r.tab
    # termination monitor: every propositional rule ticks its node, so the same
    # rule expanding the same node on the same branch twice is a loop
    seen = set()
    for e in tab.history:
        k = (id(e.target.branch), id(e.target.get('node')), e.rule.name)
        if e.target.get('node') is not None and k in seen:
            out.violation('no-termination', case,
                          dict(clause='node-expanded-twice-on-one-branch', family=S.base_name, rule=e.rule.name),
                          f'{name}: {gen.show_arg(arg)}: rule {e.rule.name} expanded the same node twice on one branch',
                          size=size)
            return
        seen.add(k)
    out.count('termination_monitor_steps', len(tab.history))
    if tab.premature:
        # a long but loop-free proof: the monitoring cap decides nothing
        out.inconc('monitoring-step-cap')
        return
    if any(runs.has_quit_flag(b) for b in tab):
        out.violation('limit-flag', case, dict(clause='quit-flag-on-propositional-argument', family=S.base_name),
                      f'{name}: {gen.show_arg(arg)} produced a limit flag node', size=size)
        return
    want = search.entails(S, arg[0], arg[1])
    if want is None:
        out.inconc('oracle-space-too-large')
        return
    got = tab.valid
    if got is True and want is True:
        out.count('verdict_valid_confirmed')
    elif got is False and want is False:
        out.count('verdict_invalid_confirmed')
    else:
        diag = diagnose(name, S, arg, cfg, got, want)
        small = arg
        if out.counters.get('shrunk', 0) < 3:
            out.count('shrunk')
            small = shadow.shrink_argument(arg, lambda a: _diag_key(name, S, a, cfg), budget=60)
        if small != arg:
            case['minimal'] = gen.arg_to_json(small)
        out.violation('wrong-verdict', case, diag,
                      f'{name}: {gen.show_arg(arg)} reported valid={got}, truth tables say entailed={want}; minimal: {gen.show_arg(small)}',
                      size=gen.arg_size(small))


def _run_nolimit(name, arg, cfg):
    return runs.run(name, arg, max_steps=CAP, models=True, **cfg)


def diagnose(name, S, arg, cfg, got, want):
    if got is True and want is False:
        cm = search.find_countermodel(S, arg[0], arg[1], limit=70000).model
        c = shadow.culprit_of_valid(name, arg, cm, dict(cfg, max_steps=CAP)) if cm else None
        return dict(clause='valid-but-countermodel', family=S.base_name,
                    culprit_rule=(c or {}).get('rule'), culprit_kind=(c or {}).get('kind'))
    r = _run_nolimit(name, arg, cfg)
    tab = r.tab
    for b in tab.open:
        if b.model is None:
            continue
        I = runs.export_model(b.model, S)
        d = shadow.diagnose_branch_model(tab, b, S, I)
        if d:
            return dict(clause='invalid-but-entailed', family=S.base_name, node_kind=d.get('node_kind'),
                        rules=d.get('rules'), diag=d.get('diag'))
    return dict(clause='invalid-but-entailed', family=S.base_name, diag='open-branch-model-satisfies-all-nodes')


def _diag_key(name, S, arg, cfg):
    r = _run_nolimit(name, arg, cfg)
    if r.outcome not in ('VALID', 'INVALID'):
        return None
    want = search.entails(S, arg[0], arg[1])
    if want is None or (r.outcome == 'VALID') == want:
        return None
    return (r.outcome, want)


def run_unit(unit, out, tier, seed):
    global CAP
    CAP = CAPS[tier]
    name = unit['logic']
    if name not in lib.logic_names():
        out.note(f'logic {name} no longer registered')
        return
    S = rsem.sem(name)
    out.count('logics')
    out.cover('logics', name)
    rng = random.Random(f'{seed}:{unit["name"]}')
    one = gen.exh_sentences(1)
    args = [((), c) for c in one] + [((p,), c) for p in one for c in one]
    combos = [dict(group_optim=g, rank_optim=k) for g, k in runs.COMBOS]
    n = 0
    if tier != 'thorough':
        # quick: all one-sentence arguments + a seeded half of the pair slice
        # (the 3-branching reduction rules make the weak Kleene families an order of magnitude slower)
        k = 6 if S.base_name in ('K3W', 'K3WQ', 'B3E') else 3
        args = [a for i, a in enumerate(args) if not a[0] or (i + seed) % k == 0]
    # every negated one-connective sentence (the node shapes of the 'Negated' rules), as conclusion and as premise
    from ..ref import syn as _syn
    negs = [_syn.neg(s_) for s_ in one if s_[0] == 'O']
    atoms_ = [s_ for s_ in one if s_[0] == 'A']
    a_, b_ = atoms_[0], atoms_[1]
    pats = [(), (a_,), (_syn.neg(a_),), (a_, b_), (a_, _syn.neg(b_)), (_syn.neg(a_), b_), (_syn.neg(a_), _syn.neg(b_))]
    args += [(p_, n_) for n_ in negs for p_ in pats] + [((n_,), a_) for n_ in negs]
    # ... and the same negated sentences one level down, as a disjunct of the conclusion beside a letter (a multi-way rule
    # that drops one of its cases loses exactly the countermodels of that case)
    deep = [(p_, _syn.op('Disjunction', n_, z_)) for n_ in negs for z_ in (a_, b_) for p_ in pats[1:5]]
    if tier != 'thorough':
        kk = 4 if S.base_name in ('K3W', 'K3WQ', 'B3E') else 2
        deep = [x for i, x in enumerate(deep) if (i + seed) % kk == 0]
    args += deep
    # negation towers beside a literal, in both arrival orders (closure rules only look at the arriving node)
    def tower(k, x):
        for _ in range(k):
            x = _syn.neg(x)
        return x
    for k in (2, 3, 4, 5):
        for lit in (a_, _syn.neg(a_)):
            args += [((lit, tower(k, a_)), b_), ((tower(k, a_), lit), b_), ((lit,), tower(k, a_)), ((tower(k, a_),), lit),
                     ((lit, _syn.op('Disjunction', tower(k, a_), b_)), b_)]
    for arg in args:
        cfgs = combos if tier == 'thorough' else [combos[(n + seed) % 4]]
        for cfg in cfgs:
            check_arg(name, S, arg, cfg, out, True)
        n += 1
        if n % 300 == 7:
            out.sample(dict(logic=name, argument=gen.show_arg(arg)), limit=2)
    if tier == 'thorough':
        for s in gen.exh_sentences(2):
            if connectives(((), s)) == 2:
                check_arg(name, S, ((), s), combos[n % 4], out, True)
                n += 1
    g = gen.SentGen(rng, 'prop')
    nrand = 2000 if tier == 'thorough' else (40 if S.base_name in ('K3W', 'K3WQ', 'B3E') else 80)
    for i in range(nrand):
        arg = g.argument(max_prem=3, depth=rng.choice([2, 3, 3, 4] if tier == 'thorough' else [2, 2, 3]))
        check_arg(name, S, arg, combos[rng.randrange(4)], out, False)
        if i % 50 == 3:
            out.sample(dict(logic=name, argument=gen.show_arg(arg)), limit=3)
    out.count('exhaustive_slice_arguments', len(args))


def replay(wit):
    from ..worker import Out
    out = Out()
    c = wit['case']
    S = rsem.sem(c['logic'])
    check_arg(c['logic'], S, gen.arg_from_json(c.get('minimal') or c['argument']), c['cfg'], out, False)
    return dict(violates=bool(out.violations), detail=[v['message'] for v in out.violations])
