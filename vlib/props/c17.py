"""C17 - limits and lifecycle: three-valued verdicts, bounded work, locked state."""
from __future__ import annotations

import random

from .. import gen, lib, proofcheck as pc, runs, tabs, workload
from ..ref import sem as rsem

ID = 'C17'
META = dict(
    level='exploration',
    exhaustive=False,
    rule=('per logic: proofs of natural length n <= 60 from the shared workload (same tie-break order seed throughout); '
          '(a) max_steps = m for EVERY m in 1..n+1 when n <= 14, else 12 values incl. 1, n-1, n, n+1, and None/0/negative: '
          'len(history) <= m; m <= n => finished, premature, no verdict; m >= n+1 => verdict and step-history signature equal the '
          'unlimited run; (b) build_timeout under a VIRTUAL clock (pytableaux.tools.timing._time replaced, +1 ms per reading): the '
          'elapsed build time E_j before each step is recorded in an unlimited virtual run; for cut points T in {E_j-1, E_j, E_j+1} '
          'the first step with E_j > T must raise ProofTimeoutError and leave the tableau finished, premature, without verdict and '
          'without tree; T >= E_n changes nothing; (c) step/finish/build on a finished tableau change no observable; (d) after '
          'start, setting logic/argument and mutating rules/groups raise IllegalStateError and change nothing; (e) a tableau '
          'without argument never reports a verdict; (f) random interleavings (<= 12 calls) of step/finish/build/setters checked '
          'against the lifecycle automaton NEW -> STARTED -> FINISHED{completed|premature}. '
          'non-trivial = distinct (logic, argument, limit) with n >= 2.'),
    assumptions=['no wall-clock value enters a verdict: timeouts are driven by a virtual clock',
                 'the lifecycle automaton (REF-FSM) is the trusted model'],
    min_events={'quick': {'step_limit_runs': 8000, 'timeout_runs': 3000, 'timeouts_raised': 800, 'idempotence_checks': 2000,
                          'locked_mutations_checked': 3000, 'interleavings': 1000, 'logics': 52},
                'thorough': {'step_limit_runs': 50000, 'timeout_runs': 20000, 'timeouts_raised': 8000, 'logics': 52}},
    budget=dict(quick=1500, thorough=7200),
    unit_timeout=dict(quick=900, thorough=3000),
)
NPROOFS = dict(quick=16, thorough=150)


def units(tier, seed):
    return [dict(name=f'limits:{n}', logic=n) for n in lib.STATIC_LOGICS]


# ------------------------------------------------------------------ helpers

class VClock:
    def __init__(self):
        self.t = 1000.0
        self.readings = 0

    def __call__(self):
        self.readings += 1
        self.t += 0.001
        return self.t


def with_vclock(fn):
    from pytableaux.tools import timing
    old = timing._time
    clk = VClock()
    timing._time = clk
    try:
        return fn(clk)
    finally:
        timing._time = old


def snapshot(tab):
    return dict(
        flag=int(tab.flag.value), hist=len(tab.history), branches=len(tab), lens=[len(b) for b in tab],
        open=[id(b) for b in tab.open], valid=tab.valid, invalid=tab.invalid, finished=tab.finished,
        premature=tab.premature, completed=tab.completed, tree=id(tab.tree), stats=id(tab.stats),
        models=len(tab.models), step=tab.current_step, rules=len(tab.rules), groups=len(tab.rules.groups),
        ticked=[sum(1 for n in b if b.is_ticked(n)) for b in tab])


def make(name, arg, order, **opts):
    from pytableaux.proof import Tableau
    lib.set_order(order)
    return Tableau(lib.logic(name), runs.lib_argument(arg), **opts)


def drive(tab, driver):
    if driver == 'build':
        tab.build()
    else:
        while tab.step() is not None:
            pass


# ------------------------------------------------------------------ the checks

def check_proof(name, S, arg, order, cfg, out, tier, rng, label=''):
    from pytableaux.errors import IllegalStateError, ProofTimeoutError
    opts = dict(is_group_optim=cfg['group_optim'], is_rank_optim=cfg['rank_optim'])
    case0 = dict(logic=name, label=label, argument=gen.arg_to_json(arg), order=order, cfg=cfg)

    def viol(clause, msg, **extra):
        out.violation('lifecycle', dict(case0, **extra), dict(clause=clause),
                      f'{name}: {gen.show_arg(arg)}: {clause}: {msg}', size=gen.arg_size(arg), env=pc.env_for(order))

    # unlimited reference run (with a monitoring cap that must not be reached)
    try:
        ref = make(name, arg, order, max_steps=200, **opts)
        ref.build()
    except Exception as e:
        out.count('errored_runs_left_to_C09')
        return
    n = len(ref.history)
    if ref.premature or n > 60 or n < 1:
        out.count('proofs_skipped_too_long_or_empty')
        return
    ref_sig = runs.signature(ref)
    ref_verdict = (ref.valid, ref.invalid)
    out.case((name, gen.arg_key(arg)), nontrivial=n >= 2)
    out.count('proofs')

    # ---- (a) step limits
    ms = list(range(1, n + 2)) if n <= 14 else sorted({1, 2, n // 2, n - 1, n, n + 1, n + 5} | set(rng.sample(range(1, n + 1), 5)))
    for m in ms + [None, 0, -3, 10 ** 6]:
        driver = rng.choice(['build', 'step'])
        # half of the runs also carry a time limit far beyond reach: both limits on one tableau must each keep working
        both = dict(build_timeout=10 ** 9) if rng.random() < 0.5 else {}
        if both:
            out.count('step_limit_runs_with_idle_time_limit')
        try:
            t = make(name, arg, order, max_steps=m, **both, **opts)
            drive(t, driver)
        except Exception as e:
            viol('step-limit-run-raises', f'max_steps={m}: {type(e).__name__}: {e}', max_steps=m, error=type(e).__name__)
            continue
        out.count('step_limit_runs')
        unlimited = m is None or m <= 0 or m >= n + 1
        if m is not None and m > 0 and len(t.history) > m:
            viol('history-exceeds-step-limit', f'max_steps={m} but {len(t.history)} steps recorded', max_steps=m)
        if not t.finished:
            viol('not-finished-after-build', f'max_steps={m}', max_steps=m)
            continue
        if unlimited:
            if (t.valid, t.invalid) != ref_verdict or runs.signature(t) != ref_sig or t.premature:
                viol('limit-beyond-natural-length-changes-result' if (m and m > 0) else 'non-positive-or-none-limit-not-unlimited',
                     f'max_steps={m}: verdict {(t.valid, t.invalid)} premature={t.premature} steps={len(t.history)} vs unlimited '
                     f'{ref_verdict} steps={n}', max_steps=m)
        else:
            if not (t.premature and t.valid is None and t.invalid is None):
                viol('stopped-by-step-limit-but-reports-verdict',
                     f'max_steps={m} <= n={n}: premature={t.premature} valid={t.valid} invalid={t.invalid}', max_steps=m)
            if len(t.history) != m:
                viol('step-limit-not-exhausted', f'max_steps={m} <= n={n} but {len(t.history)} steps recorded', max_steps=m)
            if t.tree is None:
                viol('no-tree-after-step-limit', f'max_steps={m}', max_steps=m)
        # (c) idempotence on the finished tableau
        before = snapshot(t)
        try:
            r1 = t.step()
            t.finish()
            t.build()
            r2 = t.step()
        except Exception as e:
            viol('call-on-finished-tableau-raises', f'{type(e).__name__}: {e}', max_steps=m, error=type(e).__name__)
        else:
            out.count('idempotence_checks')
            after = snapshot(t)
            if before != after or r1 is not None or r2 is not None:
                diff = [k for k in before if before[k] != after[k]]
                viol('finished-tableau-changed', f'step/finish/build changed {diff}', max_steps=m, changed=diff)
        # (d) locked state
        check_locked(t, name, arg, viol, out, where=f'finished max_steps={m}')

    # ---- (d') locked state right after start, before any step
    t = make(name, arg, order, **opts)
    check_locked(t, name, arg, viol, out, where='after trunk')
    t.step()
    check_locked(t, name, arg, viol, out, where='after one step')

    # ---- (b) time limits under the virtual clock
    def virtual_ref(clk):
        t = make(name, arg, order, **opts)
        E = [t.timers.build.elapsed_ms()]
        while True:
            e = t.step()
            if e is None:
                break
            E.append(t.timers.build.elapsed_ms())
        return t, E
    try:
        vt, E = with_vclock(virtual_ref)
    except Exception as e:
        viol('virtual-clock-run-raises', f'{type(e).__name__}: {e}', error=type(e).__name__)
        return
    if runs.signature(vt) != ref_sig:
        out.note('virtual-clock run has a different history than the wall-clock run (clock influences search?)')
        viol('clock-influences-search', 'same seed, different step history under the virtual clock')
        return
    js = list(range(len(E))) if len(E) <= 8 else sorted({0, 1, len(E) // 2, len(E) - 2, len(E) - 1} | set(rng.sample(range(len(E)), 3)))
    Ts = set()
    for j in js:
        Ts |= {E[j] - 1, E[j], E[j] + 1}
    Ts = sorted(x for x in Ts if x > 0) + [10 ** 9]
    if tier == 'quick' and len(Ts) > 10:
        Ts = sorted(rng.sample(Ts[:-1], 9)) + [Ts[-1]]
    for T in Ts:
        cut = next((j for j in range(len(E)) if E[j] > T), None)    # step j+1 must raise
        driver = rng.choice(['build', 'step'])

        both_t = dict(max_steps=10 ** 6) if rng.random() < 0.5 else {}

        def limited(clk):
            t = make(name, arg, order, build_timeout=T, **both_t, **opts)
            raised = None
            try:
                drive(t, driver)
            except ProofTimeoutError as e:
                raised = e
            return t, raised
        try:
            t, raised = with_vclock(limited)
        except Exception as e:
            viol('timeout-run-raises-other', f'build_timeout={T}: {type(e).__name__}: {e}', timeout=T, error=type(e).__name__)
            continue
        out.count('timeout_runs')
        if cut is None:
            if raised is not None or (t.valid, t.invalid) != ref_verdict or runs.signature(t) != ref_sig or t.premature:
                viol('time-limit-not-exceeded-but-behaviour-differs',
                     f'build_timeout={T} >= every E_j (max {E[-1]}): raised={raised!r} verdict={(t.valid, t.invalid)}', timeout=T)
        else:
            if raised is None:
                viol('time-limit-exceeded-but-no-timeout-error',
                     f'build_timeout={T}, elapsed before step {cut + 1} was {E[cut]} ms: finished without ProofTimeoutError '
                     f'(steps={len(t.history)})', timeout=T)
                continue
            out.count('timeouts_raised')
            if len(t.history) != cut:
                viol('timeout-at-wrong-step', f'build_timeout={T}: expected to stop after {cut} steps, stopped after {len(t.history)}', timeout=T)
            if not (t.finished and t.premature and t.valid is None and t.invalid is None):
                viol('timed-out-tableau-state', f'build_timeout={T}: finished={t.finished} premature={t.premature} valid={t.valid} '
                     f'invalid={t.invalid}', timeout=T)
            if t.tree is not None:
                viol('tree-built-after-timeout', f'build_timeout={T}', timeout=T)
            before = snapshot(t)
            try:
                r1 = t.step(); t.finish(); t.build()
            except Exception as e:
                viol('call-on-timed-out-tableau-raises', f'{type(e).__name__}: {e}', timeout=T, error=type(e).__name__)
            else:
                out.count('idempotence_checks')
                if snapshot(t) != before or r1 is not None:
                    viol('timed-out-tableau-changed', 'step/finish/build changed a timed-out tableau', timeout=T)


def check_manual(name, S, arg, order, cfg, out, rng, viol):
    """Step limits on a tableau WITHOUT argument whose branch was filled by hand (no trunk is built, so the
    step counter and the history length coincide)."""
    from pytableaux.proof import Tableau
    desig = tabs.uses_designation(name)
    w0 = tabs.world0(name)
    prem, conc = arg
    from ..ref import syn
    specs = ([('S', p, True, w0) for p in prem] + [('S', conc, False, w0)]) if desig else \
        ([('S', p, None, w0) for p in prem] + [('S', syn.neg(conc), None, w0)])
    opts = dict(is_group_optim=cfg['group_optim'], is_rank_optim=cfg['rank_optim'])

    def make_manual(**kw):
        lib.set_order(order)
        t = Tableau(lib.logic(name), **opts, **kw)
        b = t.branch()
        for sp in specs:
            b.append(tabs.mk_node(sp))
        return t
    try:
        ref = make_manual(max_steps=200)
        ref.build()
    except Exception:
        return
    n = len(ref.history)
    if ref.premature or not (1 <= n <= 40):
        return
    sig = runs.signature(ref)
    for m in (list(range(1, n + 2)) if n <= 10 else sorted({1, 2, n - 1, n, n + 1} | set(rng.sample(range(1, n + 1), 4)))):
        for driver in ('build', 'step'):
            try:
                t = make_manual(max_steps=m)
                drive(t, driver)
            except Exception as e:
                viol('step-limit-run-raises', f'hand-filled tableau, max_steps={m}: {type(e).__name__}: {e}', max_steps=m, manual=True)
                continue
            out.count('manual_step_limit_runs')
            if len(t.history) > m:
                viol('history-exceeds-step-limit', f'hand-filled tableau without trunk: max_steps={m} but {len(t.history)} steps recorded',
                     max_steps=m, manual=True)
            if t.valid is not None or t.invalid is not None:
                viol('verdict-without-argument', f'hand-filled tableau reports a verdict', max_steps=m, manual=True)
            if m <= n and not t.premature:
                viol('stopped-by-step-limit-but-not-premature', f'hand-filled tableau, max_steps={m} <= n={n}: premature={t.premature}',
                     max_steps=m, manual=True)
            if m >= n + 1 and (t.premature or runs.signature(t) != sig):
                viol('limit-beyond-natural-length-changes-result', f'hand-filled tableau, max_steps={m} > n={n}', max_steps=m, manual=True)


def check_locked(t, name, arg, viol, out, where):
    "After start: setters and rule-set mutators must raise IllegalStateError and change nothing."
    from pytableaux.errors import IllegalStateError
    from pytableaux.proof import rules as prules
    first_rule = type(next(iter(t.rules)))
    other = runs.lib_argument(((), arg[1]))
    ops = dict(
        set_logic=lambda: setattr(t, 'logic', 'CPL' if name != 'CPL' else 'K3'),
        set_same_logic=lambda: setattr(t, 'logic', name),
        set_argument=lambda: setattr(t, 'argument', other),
        rules_append=lambda: t.rules.append(prules.NoopRule),
        rules_extend=lambda: t.rules.extend([prules.NoopRule]),
        rules_clear=lambda: t.rules.clear(),
        groups_create=lambda: t.rules.groups.create('verif_new_group'),
        groups_append=lambda: t.rules.groups.append([prules.NoopRule]),
        groups_clear=lambda: t.rules.groups.clear(),
        group0_append=lambda: t.rules.groups[0].append(prules.NoopRule),
        group0_clear=lambda: t.rules.groups[0].clear(),
    )
    for opname, op in ops.items():
        before = snapshot(t)
        rule_names = [r.name for r in t.rules]
        arg_before, logic_before = t.argument, t.logic
        try:
            op()
        except IllegalStateError:
            raised = 'IllegalStateError'
        except Exception as e:
            raised = type(e).__name__
        else:
            raised = None
        out.count('locked_mutations_checked')
        changed = (snapshot(t) != before or [r.name for r in t.rules] != rule_names
                   or t.argument is not arg_before or t.logic is not logic_before)
        if raised is None:
            viol('mutation-after-start-accepted', f'{opname} ({where}) did not raise; state changed={changed}', op=opname, where=where)
        elif raised != 'IllegalStateError':
            viol('mutation-after-start-wrong-error', f'{opname} ({where}) raised {raised}', op=opname, where=where, error=raised)
        if raised is not None and changed:
            viol('refused-mutation-changed-state', f'{opname} ({where}) raised {raised} but changed the tableau', op=opname, where=where)


def check_no_argument(name, out, viol):
    "(e) A tableau without an argument never reports a verdict."
    from pytableaux.proof import Tableau, sdwnode
    from pytableaux.lang import Atomic
    for variant in ('empty', 'manual-branch', 'closed-branch'):
        t = Tableau(lib.logic(name))
        if variant != 'empty':
            b = t.branch()
            d = True if tabs.uses_designation(name) else None
            b.append(sdwnode(Atomic(0, 0), d, tabs.world0(name)))
            if variant == 'closed-branch':
                if d is None:
                    b.append(sdwnode(~Atomic(0, 0), None, tabs.world0(name)))
                else:
                    b.append(sdwnode(Atomic(0, 0), False, tabs.world0(name)))
        verdicts = [(t.valid, t.invalid)]
        t.step()
        verdicts.append((t.valid, t.invalid))
        t.build()
        verdicts.append((t.valid, t.invalid))
        out.count('no_argument_checks')
        if any(v != (None, None) for v in verdicts):
            viol('verdict-without-argument', f'{variant}: verdicts {verdicts}', variant=variant)
        if not t.finished:
            viol('no-argument-tableau-not-finished', variant, variant=variant)


OPS = ['step', 'step', 'step', 'finish', 'build', 'set_logic', 'set_argument', 'rules_clear', 'groups_create']


def check_interleaving(name, S, arg, order, out, rng, n_nat, ref_verdict, viol):
    """(f) Random call sequence against the lifecycle automaton."""
    from pytableaux.errors import IllegalStateError
    from pytableaux.proof import Tableau
    lib.set_order(order)
    start = rng.choice(['full', 'full', 'full', 'full', 'logic-first', 'argument-first'])
    t = Tableau()
    st = dict(logic=False, arg=False, started=False, finished=False, premature=None, steps=0)
    seq = []

    def set_logic():
        t.logic = lib.logic(name)

    def set_arg():
        t.argument = runs.lib_argument(arg)
    first = dict(full=[set_logic, set_arg], **{'logic-first': [set_logic], 'argument-first': [set_arg]})[start]
    for f in first:
        f()
    st['logic'] = start in ('full', 'logic-first')
    st['arg'] = start in ('full', 'argument-first')
    st['started'] = st['logic'] and st['arg']
    ops = [rng.choice(OPS) for _ in range(rng.randint(3, 12))]
    for op in ops:
        seq.append(op)
        before = snapshot(t)
        try:
            if op == 'step':
                r = t.step()
            elif op == 'finish':
                t.finish()
            elif op == 'build':
                t.build()
            elif op == 'set_logic':
                set_logic()
            elif op == 'set_argument':
                set_arg()
            elif op == 'rules_clear':
                t.rules.clear()
            elif op == 'groups_create':
                t.rules.groups.create()
            raised = None
        except IllegalStateError:
            raised = 'IllegalStateError'
        except Exception as e:
            raised = type(e).__name__
        after = snapshot(t)
        # ---- automaton
        if st['finished']:
            if op in ('step', 'finish', 'build'):
                if raised or after != before:
                    viol('finished-tableau-changed', f'{start}:{seq}: {op} raised={raised} or changed state', seq=list(seq), start=start)
                    return
            else:
                # setters / rule mutators after finish: allowed only if never started
                pass
        if op in ('set_logic', 'set_argument'):
            key = 'logic' if op == 'set_logic' else 'arg'
            if st['started']:
                if raised != 'IllegalStateError' or after != before:
                    viol('setter-after-start', f'{start}:{seq}: {op} raised={raised} changed={after != before}', seq=list(seq), start=start)
                    return
            elif st['finished']:
                # finished without ever having started: the property says nothing about setters here
                out.count('interleavings_left_unconstrained')
                return
            else:
                if raised:
                    viol('setter-before-start-raises', f'{start}:{seq}: {op} raised {raised}', seq=list(seq), start=start)
                    return
                st[key] = True
                st['started'] = st['logic'] and st['arg']
        elif op in ('rules_clear', 'groups_create'):
            if st['started']:
                if raised != 'IllegalStateError' or after != before:
                    viol('rules-mutated-after-start', f'{start}:{seq}: {op} raised={raised} changed={after != before}', seq=list(seq), start=start)
                    return
            elif not st['finished'] and raised is None and op == 'rules_clear':
                st['cleared'] = True
        elif op in ('step', 'finish', 'build') and not st['finished']:
            if raised:
                viol('lifecycle-call-raises', f'{start}:{seq}: {op} raised {raised}', seq=list(seq), start=start)
                return
            if op == 'step':
                if t.finished:
                    st['finished'] = True
                    st['premature'] = False
            elif op == 'finish':
                st['finished'] = True
                st['premature'] = not (st.get('natural_end'))
            else:
                st['finished'] = True
                st['premature'] = False
            if not st['finished'] and t.finished:
                st['finished'] = True
        # ---- invariants of every state
        if t.finished != st['finished']:
            viol('finished-flag-differs-from-automaton', f'{start}:{seq}: finished={t.finished} expected {st["finished"]}', seq=list(seq), start=start)
            return
        if t.finished:
            if op == 'finish' and before['finished'] is False:
                # finish() before the natural end => premature, no verdict
                nat = (before['hist'] >= n_nat) and False
            if t.premature and (t.valid is not None or t.invalid is not None):
                viol('premature-tableau-reports-verdict', f'{start}:{seq}', seq=list(seq), start=start)
                return
            if not st['arg'] and (t.valid is not None or t.invalid is not None):
                viol('verdict-without-argument', f'{start}:{seq}', seq=list(seq), start=start)
                return
            if t.completed and st['started'] and not st.get('cleared') and (t.valid, t.invalid) != ref_verdict:
                viol('completed-verdict-differs-from-plain-build', f'{start}:{seq}: {(t.valid, t.invalid)} vs {ref_verdict}', seq=list(seq), start=start)
                return
            if st['premature'] is True and op == 'finish' and not before['finished'] and st['started'] and not t.premature \
                    and before['hist'] < n_nat:
                viol('manual-finish-before-end-not-premature', f'{start}:{seq}: steps={before["hist"]} < n={n_nat}', seq=list(seq), start=start)
                return
        elif t.valid is not None or t.invalid is not None:
            viol('unfinished-tableau-reports-verdict', f'{start}:{seq}', seq=list(seq), start=start)
            return
    out.count('interleavings')


def run_unit(unit, out, tier, seed):
    name = unit['logic']
    if name not in lib.logic_names():
        out.note(f'logic {name} no longer registered')
        return
    S = rsem.sem(name)
    desig = tabs.uses_designation(name)
    out.count('logics')
    out.cover('logics', name)
    rng = random.Random(f'{seed}:{name}:c17')
    cases = list(workload.cases(name, desig, rng, n_random=30, with_examples=False))
    rng.shuffle(cases)

    def viol0(clause, msg, **extra):
        out.violation('lifecycle', dict(logic=name, **extra), dict(clause=clause), f'{name}: {clause}: {msg}')
    check_no_argument(name, out, viol0)
    done = 0
    for i, (label, frag, arg) in enumerate(cases):
        if done >= NPROOFS[tier]:
            break
        cfg, _, order = workload.config_cycle(i, seed)
        before = out.counters.get('proofs', 0)
        check_proof(name, S, arg, order, cfg, out, tier, rng, label)
        if out.counters.get('proofs', 0) > before:
            done += 1
            if done <= 2:
                out.sample(dict(logic=name, label=label, argument=gen.show_arg(arg)), limit=2)
            # interleavings on the same proof
            try:
                ref = make(name, arg, order)
                ref.build()
                n_nat, verdict = len(ref.history), (ref.valid, ref.invalid)
            except Exception:
                continue

            def viol(clause, msg, **extra):
                out.violation('lifecycle', dict(logic=name, label=label, argument=gen.arg_to_json(arg), order=order, cfg=cfg, **extra),
                              dict(clause=clause), f'{name}: {gen.show_arg(arg)}: {clause}: {msg}', size=gen.arg_size(arg),
                              env=pc.env_for(order))
            for _ in range(4 if tier == 'quick' else 12):
                check_interleaving(name, S, arg, order, out, rng, n_nat, verdict, viol)
            if done % 2 == 0:
                check_manual(name, S, arg, order, cfg, out, rng, viol)


def replay(wit):
    from ..worker import Out
    out = Out()
    c = wit['case']
    name = c['logic']
    if 'argument' not in c:
        def v0(clause, msg, **extra):
            out.violation('lifecycle', {}, dict(clause=clause), msg)
        check_no_argument(name, out, v0)
    else:
        arg = gen.arg_from_json(c['argument'])
        rng = random.Random(0)
        if 'seq' in c:
            ref = make(name, arg, c['order']); ref.build()
            def viol(clause, msg, **extra):
                out.violation('lifecycle', {}, dict(clause=clause), msg)
            for _ in range(300):
                check_interleaving(name, rsem.sem(name), arg, c['order'], out, rng, len(ref.history), (ref.valid, ref.invalid), viol)
        elif c.get('manual'):
            def viol(clause, msg, **extra):
                out.violation('lifecycle', {}, dict(clause=clause), msg)
            check_manual(name, rsem.sem(name), arg, c['order'], c.get('cfg', dict(group_optim=True, rank_optim=True)), out, rng, viol)
        else:
            check_proof(name, rsem.sem(name), arg, c['order'], c.get('cfg', dict(group_optim=True, rank_optim=True)), out, 'thorough', rng)
    same = [v for v in out.violations if v['diagnosis'] == wit['diagnosis']]
    return dict(violates=bool(same), detail=[v['message'][:400] for v in same][:3])
