"""C05 - branches close exactly when their literals are unsatisfiable (exhaustive)."""
from __future__ import annotations

from itertools import combinations, permutations, product

from .. import lib, tabs
from ..ref import sem as rsem, syn

ID = 'C05'
META = dict(
    level='exploration',
    exhaustive=dict(quick=False, thorough=True),
    rule=('every logic x literal kind (atom, predication, identity a=b, self-identity a=a, existence !a, opaque quantified, '
          'opaque modal) x every subset of the literal constraints {s, ~s} x {designated, undesignated} (or {s, ~s} in '
          'systems without designation markers) x every insertion order x assignments of the literals to worlds 0/1 '
          '(modal logics; quick: all-same plus the splits of subsets of size <= 2, thorough: every assignment). Each set is '
          'appended node by node to a branch of a real Tableau and built. Oracle: closed <=> no value of REF-SEM satisfies '
          'the constraints at some world; open => Model().read_branch(b).value_of(s) satisfies them. '
          'non-trivial = distinct (logic, kind, ordered constraint list with worlds) with >= 2 literals.'),
    assumptions=['REF-SEM negation tables and designated sets', 'classical family: a=a and !a are true at every world'],
    min_events={'any': {'closed_expected_and_observed': 500, 'open_model_reads': 500, 'logics': 52}},
    budget=dict(quick=1500, thorough=7200),
)

A = syn.atom(0)
a, b = syn.const(0), syn.const(1)
x = syn.var(0)
F = syn.pred(0, 0, 1)
KINDS = dict(
    atom=A,
    pred=syn.papp(F, a),
    ident=syn.papp(syn.IDENTITY, a, b),
    selfid=syn.papp(syn.IDENTITY, a, a),
    exist=syn.papp(syn.EXISTENCE, a),
    opq=syn.quant('Existential', x, syn.papp(F, x)),
    opm=syn.op('Possibility', A),
    opn=syn.op('Necessity', A),
)


def kinds_for(S):
    ks = ['atom', 'pred', 'ident', 'selfid', 'exist']
    if not S.quantified:
        ks.append('opq')
    if not S.modal:
        ks += ['opm', 'opn']
    return ks


def units(tier, seed):
    return [dict(name=f'lits:{n}', logic=n) for n in lib.STATIC_LOGICS]


def satisfiable(S, kind, lits):
    "lits: iterable of (negated, d). Is there a value satisfying all?"
    for v in S.values:
        if S.classical and kind in ('selfid', 'exist') and v != 'T':
            continue
        if all(holds(S, v, n, d) for n, d in lits):
            return True
    return False


def holds(S, v, negated, d):
    val = S.fn('Negation', v) if negated else v
    return (val in S.designated) == (True if d is None else d)


def run_case(name, S, kind, seq, out, desig, form='node'):
    """seq: ordered list of (negated, d, world). form: literals put on the branch as node objects ('node') or as the
    plain mappings Branch.append also accepts ('mapping')."""
    s = KINDS[kind]
    tab = tabs.new_tableau(name)
    br = tab.branch()
    for n, d, w in seq:
        if br.closed:
            break
        if form == 'mapping':
            m = dict(sentence=syn.to_lib(syn.neg(s) if n else s))
            if d is not None:
                m['designated'] = d
            if w is not None:
                m['world'] = w
            br.append(m)
            out.count('literals_appended_as_mapping')
        else:
            br.append(tabs.mk_node(('S', syn.neg(s) if n else s, d, w)))
    tab.build()
    if len(tab) != 1:
        out.violation('literal-set-branched', dict(logic=name, kind=kind, seq=seq, form=form),
                      dict(diag='literals-expanded', logic=name, kind=kind),
                      f'{name}: literal set produced {len(tab)} branches; history={[e.rule.name for e in tab.history]}')
        return
    closed = br.closed
    worlds = sorted({w for _, _, w in seq}, key=lambda w: -1 if w is None else w)
    unsat_worlds = [w for w in worlds if not satisfiable(S, kind, [(n, d) for n, d, ww in seq if ww == w])]
    expected = bool(unsat_worlds)
    key = (name, kind, tuple(seq), form)
    out.case(key, nontrivial=len(seq) >= 2)
    if closed and expected:
        out.count('closed_expected_and_observed')
    if closed != expected:
        lits = sorted({(n, d) for n, d, _ in seq})
        out.violation(
            'closure-mismatch',
            dict(logic=name, kind=kind, form=form, seq=[list(q) for q in seq], closed=closed, expected_closed=expected,
                 history=[e.rule.name for e in tab.history]),
            dict(diag='closed-but-satisfiable' if closed else 'open-but-unsatisfiable',
                 family=S.base_name, classical=S.classical, kind=kind,
                 literals=[f"{'~' if n else ''}s{ {True: '+', False: '-', None: ''}[d] }" for n, d in lits],
                 split_worlds=len(worlds) > 1),
            f'{name}: literal set {[tabs.show_spec(("S", syn.neg(s) if n else s, d, w)) for n, d, w in seq]} '
            f'closed={closed} but satisfiable={not expected}',
            size=len(seq))
        return
    if closed:
        return
    # open: the model read off the branch must satisfy every literal
    try:
        model = lib.logic(name).Model()
        model.read_branch(br)
    except Exception as e:
        out.violation('model-read-raises', dict(logic=name, kind=kind, form=form, seq=[list(q) for q in seq]),
                      dict(diag='read_branch-raises', family=S.base_name, kind=kind, error=type(e).__name__),
                      f'{name}: read_branch raised {e!r}', size=len(seq))
        return
    out.count('open_model_reads')
    ls = syn.to_lib(s)
    for w in worlds:
        kw = {} if w is None else dict(world=w)
        v = str(model.value_of(ls, **kw))
        bad = [(n, d) for n, d, ww in seq if ww == w and not holds(S, v, n, d)]
        if bad:
            out.violation(
                'model-value', dict(logic=name, kind=kind, form=form, seq=[list(q) for q in seq], world=w, value=v),
                dict(diag='read-value-violates-literal', family=S.base_name, kind=kind,
                     literals=sorted(f"{'~' if n else ''}s{ {True: '+', False: '-', None: ''}[d] }" for n, d, ww in seq if ww == w),
                     value=v),
                f'{name}: open literal set {seq} read as value {v} at world {w}, violating {bad}', size=len(seq))
            break


def run_shared(name, S, kind, seq, out):
    """Two root branches of ONE tableau built from the same node objects (first in the given order, second reversed):
    whether a node closes a branch depends on that branch, not on where the node object was seen before."""
    s = KINDS[kind]
    tab = tabs.new_tableau(name)
    nodes = [tabs.mk_node(('S', syn.neg(s) if n else s, d, w)) for n, d, w in seq]
    worlds = sorted({w for _, _, w in seq}, key=lambda w: -1 if w is None else w)
    expected = any(not satisfiable(S, kind, [(n, d) for n, d, ww in seq if ww == w]) for w in worlds)
    brs = []
    for which, order in (('first', nodes), ('second', list(reversed(nodes)))):
        br = tab.branch()
        for nd in order:
            br.append(nd)
        brs.append((which, br))
    tab.build()
    for which, br in brs:
        out.count('shared_node_branches')
        out.case((name, kind, tuple(seq), 'shared', which), nontrivial=True)
        if bool(br.closed) != expected and which == 'second':
            # the first branch is the ordinary case (already judged by run_case); report the sharing-specific one
            lits = sorted({(n, d) for n, d, _ in seq})
            out.violation(
                'closure-mismatch',
                dict(logic=name, kind=kind, form='shared-node-objects', seq=[list(q) for q in seq], closed=bool(br.closed),
                     expected_closed=expected),
                dict(diag='closed-but-satisfiable' if br.closed else 'open-but-unsatisfiable', family=S.base_name,
                     classical=S.classical, kind=kind,
                     literals=[f"{'~' if n else ''}s{ {True: '+', False: '-', None: ''}[d] }" for n, d in lits],
                     split_worlds=len(worlds) > 1, shared_node_objects=True),
                f'{name}: the node objects of {seq} appended (reversed) to a second root branch of the same tableau: '
                f'closed={bool(br.closed)}, satisfiable={not expected}', size=len(seq))
            return


def run_unit(unit, out, tier, seed):
    name = unit['logic']
    if name not in lib.logic_names():
        out.note(f'logic {name} no longer registered')
        return
    S = rsem.sem(name)
    desig = tabs.uses_designation(name)
    out.count('logics')
    out.cover('logics', name)
    w0 = tabs.world0(name)
    lits = [(n, d) for n in (False, True) for d in ((True, False) if desig else (None,))]
    n_cases = 0
    for kind in kinds_for(S):
        out.cover('kinds', kind)
        for k in range(1, len(lits) + 1):
            for subset in combinations(lits, k):
                for order in permutations(subset):
                    if w0 is None:
                        wassigns = [(None,) * k]
                    elif tier == 'thorough' or k <= 2:
                        wassigns = list(product((0, 1), repeat=k))
                    else:
                        wassigns = [(0,) * k, (1,) + (0,) * (k - 1)]
                    for ws in wassigns:
                        seq = [(n, d, w) for (n, d), w in zip(order, ws)]
                        run_case(name, S, kind, seq, out, desig)
                        if tier == 'thorough' or k <= 2 or n_cases % 3 == 0:
                            run_case(name, S, kind, seq, out, desig, form='mapping')
                        if k >= 2 and (tier == 'thorough' or n_cases % 2 == 0):
                            run_shared(name, S, kind, seq, out)
                        n_cases += 1
                        if n_cases % 400 == 1:
                            out.sample(dict(logic=name, kind=kind,
                                            nodes=[tabs.show_spec(('S', syn.neg(KINDS[kind]) if n else KINDS[kind], d, w))
                                                   for n, d, w in seq]), limit=2)


def replay(wit):
    from ..worker import Out
    out = Out()
    c = wit['case']
    S = rsem.sem(c['logic'])
    if c.get('form') == 'shared-node-objects':
        run_shared(c['logic'], S, c['kind'], [tuple(q) for q in c['seq']], out)
    else:
        run_case(c['logic'], S, c['kind'], [tuple(q) for q in c['seq']], out, None, form=c.get('form', 'node'))
    return dict(violates=bool(out.violations), detail=[v['message'] for v in out.violations])
