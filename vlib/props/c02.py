"""C02 - an 'invalid' verdict comes with a genuine countermodel."""
from __future__ import annotations

import random

from .. import gen, lib, proofcheck as pc, runs, tabs, workload
from ..ref import sem as rsem

ID = 'C02'
META = dict(
    level='exploration',
    exhaustive=False,
    rule=('the same proof workload as C01 (hostile shapes, named examples, rule-directed and random arguments in all '
          'fragments, rotating configurations incl. tie-break order seeds) run with is_build_models=True; for every INVALID '
          'verdict and every open branch without a limit flag, the DATA of branch.model is exported into a REF-SEM '
          'interpretation and every node of the branch is evaluated by the reference (designated nodes designated, '
          'undesignated not, each at its world), access nodes must be in R, R must satisfy the frame condition, the '
          'interpretation must be a countermodel by REF-SEM and model.is_countermodel_to(argument) must agree. A failing '
          'node is classified (unsaturated modal / quantifier universal, literal misread, ...). '
          'non-trivial = distinct (logic, argument) with verdict INVALID and >= 2 rule applications.'),
    assumptions=['REF-SEM semantics incl. lattice reading of the FDE family',
                 'monitoring cap of 300/600 steps: capped runs have no verdict and are skipped (counted)'],
    min_events={'quick': {'open_branches_checked': 3000, 'branch_nodes_evaluated': 20000, 'logics': 52, 'library_countermodel_tests': 2000},
                'thorough': {'open_branches_checked': 40000, 'branch_nodes_evaluated': 300000, 'logics': 52}},
    budget=dict(quick=1500, thorough=7200),
    unit_timeout=dict(quick=900, thorough=3000),
)

NRANDOM = dict(quick=70, thorough=900)
SPLIT = dict(quick=1, thorough=4)


def units(tier, seed):
    return [dict(name=f'proofs:{n}:{k}', logic=n, part=k, parts=SPLIT[tier])
            for n in lib.STATIC_LOGICS for k in range(SPLIT[tier])]


def run_unit(unit, out, tier, seed):
    name = unit['logic']
    if name not in lib.logic_names():
        out.note(f'logic {name} no longer registered')
        return
    S = rsem.sem(name)
    desig = tabs.uses_designation(name)
    out.count('logics') if unit['part'] == 0 else None
    out.cover('logics', name)
    rng = random.Random(f'{seed}:{name}')
    allcases = list(workload.cases(name, desig, rng, n_random=NRANDOM[tier],
                                   n_rule_rounds=1 if tier == 'quick' else 3))
    mine = allcases[unit['part']::unit['parts']]
    nconf = 1 if tier == 'quick' else 4
    for i, (label, frag, arg) in enumerate(mine):
        for j in range(nconf):
            cfg, driver, order = workload.config_cycle(i * 5 + j * 3 + 1, seed)
            check(name, S, arg, cfg, driver, order, out, tier, label, frag)
        if i % 40 == 9:
            out.sample(dict(logic=name, label=label, argument=gen.show_arg(arg)), limit=3)


def check(name, S, arg, cfg, driver, order, out, tier, label='', frag=''):
    r = pc.run_cfg(name, arg, cfg, driver, order, tier, models=True)
    out.count('runs')
    out.count(f'outcome:{r.outcome}')
    out.cover('fragments', frag)
    out.case((name, gen.arg_key(arg)), nontrivial=(r.outcome == 'INVALID' and r.steps >= 2))
    if r.outcome == 'ERROR':
        # does the same configuration succeed without the model builder? then building the model is what failed,
        # and the INVALID verdict comes without the countermodel the property promises
        r0 = pc.run_cfg(name, arg, cfg, driver, order, tier, models=False)
        if r0.outcome == 'INVALID':
            out.count('model_builder_errors')
            out.violation('model-builder-raises',
                          dict(logic=name, argument=gen.arg_to_json(arg), label=label, **pc.cfg_json(cfg, driver, order), error=r.error),
                          dict(clause='model-builder-raises-on-invalid-run', family=S.base_name, error=r.error['type'], site=r.error['site']),
                          f'{name}: {gen.show_arg(arg)} is INVALID but building the models raised {r.error}',
                          size=gen.arg_size(arg), env=pc.env_for(order))
        else:
            out.count('errored_runs_left_to_C09')
        return
    if r.outcome != 'INVALID':
        return
    for v in pc.monitor_invalid(name, S, arg, r, cfg, driver, order, out, tier, label):
        pc.emit(out, v)


def replay(wit):
    from ..worker import Out
    out = Out()
    c = wit['case']
    S = rsem.sem(c['logic'])
    check(c['logic'], S, gen.arg_from_json(c['argument']), c['cfg'], c['driver'], c['order'], out, 'thorough', c.get('label', ''))
    return dict(violates=bool(out.violations), detail=[v['message'][:600] for v in out.violations])
