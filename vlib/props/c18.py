"""C18 - ordered-set containers stay a set and a sequence at once.

Runtime monitor for ``pytableaux.tools.hybrids.qset``, ``pytableaux.tools.linked.linqset`` and
``pytableaux.lang.collect.Predicates``: operation sequences are executed on the real container and
on REF-SEQ (``vlib/ref/seqmodel.py``: a list without duplicates plus the permitted outcomes of
every operation).  After EVERY operation the K4 invariant is evaluated through the public API and
the observed outcome (returned / raised, post-state) is matched against the permitted ones.
"""
from __future__ import annotations

import json
import operator
from itertools import islice

from ..ref import seqmodel as sm

ID = 'C18'
META = dict(
    level='exploration',
    exhaustive=False,
    rule=('class in {qset, linqset, Predicates} x start in {[], [2,0]} x operation sequences over the universe {0,1,2,3} '
          '(Predicates: F/1=(0,0,1), F/2=(0,0,2) [conflicts with F/1], G/1=(1,0,1), H/2=(2,0,2)). ~30 operation kinds '
          '(append add insert wedge remove discard pop delitem delslice setitem setslice clear reverse sort copy extend '
          '+= update |= &= -= ^= the same with the container itself as operand, | & - ^ +) each instantiated with all '
          'relevant small arguments (~175-200 instances). (1) every sequence of depth <= 2 (quick) / <= 3 (thorough) is '
          'executed without pruning; (2) breadth-first enumeration to depth 3 (quick) / 6 or closure (thorough) where a '
          'prefix is extended only if it reached a not yet visited (complete hidden state, model state) pair - i.e. '
          'exhaustive modulo state equivalence; (3) seeded random sequences of depth 60 with three weight profiles; '
          '(4) random sequences with the K4 invariant installed on the real classes through icontract. A sequence stops at '
          'its first violation; random witnesses are shrunk greedily. distinct = (class, start, op list); non-trivial = '
          '>= 2 ops and >= 1 mutator.'),
    assumptions=[
        'REF-SEQ permitted-outcome table (vlib/ref/seqmodel.py): ambiguous operations accept both "raises, unchanged" and '
        'the duplicate-free list-model result; a raising bulk operation may have applied a prefix',
        'state-equivalence pruning reads the private fields (_seq_/_set_, link chain/__table, _lookup) only to decide '
        'which prefixes to extend, never to judge',
        'element hashing/equality of ints and Predicate objects is correct (C18 is about the containers)'],
    min_events={'any': {'ops_executed': 20000, 'ops_raised_and_checked_unchanged': 500, 'k4_checks': 20000}},
    budget=dict(quick=1500, thorough=7200),
    unit_timeout=dict(quick=900, thorough=3000),
)

CLASSES = ('qset', 'linqset', 'Predicates')
STARTS = {'empty': [], 'two': [2, 0]}
PRED_SPECS = ((0, 0, 1), (0, 0, 2), (1, 0, 1), (1, 0, 2))      # two symbols, each with two conflicting arities
U = sm.UNIVERSE
CAP = 32     # no legitimate container over the universe is longer than 4


# ====================================================================== units (driver side)

def units(tier, seed):
    quick = tier == 'quick'
    us = []
    ngroups = 4 if quick else 8
    for cls in CLASSES:
        for st in STARTS:
            for g in range(ngroups):
                us.append(dict(name=f'exh:{cls}:{st}:{g}', mode='exh', cls=cls, start=st, group=g, ngroups=ngroups,
                               depth_full=2, depth_compact=0 if quick else 3, depth_bfs=3 if quick else 6))
    nchunks = 6 if quick else 12
    total = 1500 if quick else 60000
    profiles = sorted(sm.PROFILES)
    for cls in CLASSES:
        for k in range(nchunks):
            us.append(dict(name=f'rnd:{cls}:{k}', mode='rnd', cls=cls, nseq=-(-total // nchunks), depth=60,
                           profile=profiles[k % len(profiles)]))
    for cls in CLASSES:
        us.append(dict(name=f'ic:{cls}', mode='ic', cls=cls, nseq=120 if quick else 2500, depth=30, profile='assign'))
    # the predicate store over a wider universe (3 symbols x 2 arities + 1): slice assignments in which several arriving
    # predicates conflict with different members, some leaving and some staying
    us.append(dict(name='preds-wide', mode='preds-wide'))
    # longer containers (5..10 members over ten values): positions in the back half, reached by index from the far end
    for cls in ('qset', 'linqset'):
        for k in range(2 if quick else 6):
            us.append(dict(name=f'long:{cls}:{k}', mode='long', cls=cls, nseq=250 if quick else 2500))
    return us


def run_long(unit, out, tier, seed):
    """Random sequences of index/value operations with unambiguous list semantics on containers of 5..10 members, against
    a plain list; every observation (iteration both ways, length, every index from both ends, membership, index(), a
    few slices) is compared after every operation."""
    import random
    from pytableaux.tools.hybrids import qset
    from pytableaux.tools.linked import linqset
    C = dict(qset=qset, linqset=linqset)[unit['cls']]
    rng = random.Random(f'{seed}:{unit["name"]}')
    UNI = list(range(10))

    def observe(c, m, ops, start):
        probs = []
        got = list(c)
        if got != m:
            probs.append(('iteration', got))
        if list(reversed(c)) != m[::-1]:
            probs.append(('reversed', list(reversed(c))))
        if len(c) != len(m):
            probs.append(('len', len(c)))
        for i in range(-len(m), len(m)):
            try:
                v = c[i]
            except Exception as e:
                v = f'raised {type(e).__name__}'
            if v != m[i]:
                probs.append((f'getitem[{i}]', v))
        for v in UNI:
            if (v in c) != (v in m):
                probs.append((f'contains({v})', v in c))
            if v in m:
                try:
                    ix = c.index(v)
                except Exception as e:
                    ix = f'raised {type(e).__name__}'
                if ix != m.index(v):
                    probs.append((f'index({v})', ix))
        if len(m) >= 4:
            a = len(m) // 2
            for sl in (slice(a, None), slice(a - 1, len(m) - 1), slice(None, None, -1), slice(a, 0, -1)):
                try:
                    g = list(c[sl])
                except Exception as e:
                    g = f'raised {type(e).__name__}'
                if g != m[sl]:
                    probs.append((f'slice[{sl.start}:{sl.stop}:{sl.step}]', g))
        return probs

    for sq in range(unit['nseq']):
        n0 = rng.randint(5, 9)
        start = rng.sample(UNI, n0)
        c = C(start)
        m = list(start)
        ops = []
        for step in range(25):
            fresh = [v for v in UNI if v not in m]
            kinds = ['del', 'pop', 'remove', 'reverse', 'getslice']
            if fresh:
                kinds += ['insert', 'insert', 'setitem', 'setitem', 'append']
            if len(m) < 5 and fresh:
                kinds = ['insert', 'append']
            k = rng.choice(kinds)
            i = rng.randrange(-len(m), len(m)) if m else 0
            if m and rng.random() < 0.6:
                i = rng.randrange(len(m) // 2, len(m))          # back half, from the front end
            try:
                if k == 'del':
                    ops.append(('del', i)); del c[i]; del m[i]
                elif k == 'pop':
                    ops.append(('pop', i)); r1 = c.pop(i); r2 = m.pop(i)
                    if r1 != r2:
                        raise AssertionError(f'pop({i}) returned {r1}, list model {r2}')
                elif k == 'remove':
                    v = m[i]; ops.append(('remove', v)); c.remove(v); m.remove(v)
                elif k == 'reverse':
                    ops.append(('reverse',)); c.reverse(); m.reverse()
                elif k == 'insert':
                    v = rng.choice(fresh); ops.append(('insert', i, v)); c.insert(i, v); m.insert(i, v)
                elif k == 'setitem':
                    v = rng.choice(fresh); ops.append(('setitem', i, v)); c[i] = v; m[i] = v
                elif k == 'append':
                    v = rng.choice(fresh); ops.append(('append', v)); c.append(v); m.append(v)
                else:
                    ops.append(('getslice', i))
            except Exception as e:
                out.violation('long-container', dict(cls=unit['cls'], start=start, ops=[list(o) for o in ops]),
                              dict(cls=unit['cls'], op=ops[-1][0], clause='operation-raises-or-returns-wrong', error=type(e).__name__),
                              f"{unit['cls']}({start}) after {ops[:-1]}: {ops[-1]} -> {type(e).__name__}: {e}", size=len(ops))
                break
            out.count('long_container_ops')
            probs = observe(c, m, ops, start)
            if probs:
                out.violation('long-container', dict(cls=unit['cls'], start=start, ops=[list(o) for o in ops], model=m,
                                                      observed=[list(map(str, p)) for p in probs[:6]]),
                              dict(cls=unit['cls'], op=ops[-1][0], clause='differs-from-list-model', first=probs[0][0].split('[')[0].split('(')[0]),
                              f"{unit['cls']}({start}) after {ops}: list model {m}, observed {probs[:4]}", size=len(ops))
                break
        out.case(('long', unit['cls'], tuple(start), tuple(ops)), nontrivial=True)
        out.count('long_sequences')


WIDE = ((0, 0, 1), (0, 0, 2), (1, 0, 1), (1, 0, 2), (2, 0, 1), (2, 0, 2), (3, 0, 1))


def run_preds_wide(unit, out, tier, seed):
    """Exhaustive: every start store of 2..3 non-conflicting predicates over WIDE x every equal-length slice x every
    tuple of distinct arriving predicates. Oracle: the list-without-duplicates model with the arity-conflict relation;
    a refused assignment leaves the store unchanged; afterwards no two members share a symbol with different arity and
    every member is found by each of its refs."""
    from itertools import permutations
    from pytableaux.lang import Predicate, Predicates
    preds = [Predicate(x) for x in WIDE]
    sym = lambda t: t[:2]

    def conflict_free(ts):
        return len({sym(t) for t in ts}) == len(ts)

    def state(v):
        return [tuple(p.spec) for p in v]

    def store_problems(v):
        st = state(v)
        probs = []
        if len(set(st)) != len(st):
            probs.append('duplicates')
        if not conflict_free(st) and len(set(st)) == len(st):
            probs.append('arity-conflict')
        for p in list(v):
            for ref in p.refs:
                try:
                    if v.get(ref) != p or ref not in v:
                        probs.append('member-not-found-by-ref')
                        break
                except Exception:
                    probs.append('member-not-found-by-ref')
                    break
        for t in WIDE:
            if t not in st and sym(t) not in {sym(x) for x in st}:
                if v.get(t, None) is not None:
                    probs.append('non-member-found')
        return sorted(set(probs))
    n = 0
    for k in (2, 3):
        for start in permutations(WIDE, k):
            if not conflict_free(start):
                continue
            if tier == 'quick' and (hash(start) + seed) % 3:
                continue
            for sl in ((0, 1), (0, 2), (1, 3), (0, 3), (1, 2)):
                idx = range(*slice(*sl).indices(k))
                if not idx:
                    continue
                for vals in permutations(WIDE, len(idx)):
                    v = Predicates(start)
                    before = state(v)
                    want = list(before)
                    want[slice(*sl)] = list(vals)
                    ok_expected = len(set(want)) == len(want) and conflict_free(want)
                    try:
                        v[slice(*sl)] = [Predicate(x) for x in vals]
                        raised = None
                    except Exception as e:
                        raised = type(e).__name__
                    n += 1
                    out.count('ops_executed')
                    out.count('preds_wide_slice_assignments')
                    out.case(('preds-wide', start, sl, vals), nontrivial=True)
                    after = state(v)
                    probs = store_problems(v)
                    clause = None
                    if raised and after != before:
                        clause = 'changed-after-raise'
                    elif raised is None and after != want:
                        clause = 'model-mismatch'
                    elif raised is None and not ok_expected:
                        clause = 'invariant:' + '+'.join(probs or ['conflicting-assignment-accepted'])
                    elif raised and ok_expected:
                        clause = 'must-succeed-raised'
                    elif probs:
                        clause = 'invariant:' + '+'.join(probs)
                    if clause:
                        out.violation('preds-wide', dict(cls='Predicates', start=[list(t) for t in start], slice=list(sl),
                                                         values=[list(t) for t in vals], raised=raised, after=[list(t) for t in after]),
                                      dict(cls='Predicates', op='setslice', clause=clause,
                                           conflicts_with_staying=any(sym(a) == sym(b) and a != b for a in vals
                                                                      for j, b in enumerate(before) if j not in idx),
                                           conflicts_with_leaving=any(sym(a) == sym(before[j]) and a != before[j] for a in vals for j in idx)),
                                      f'Predicates{list(start)}[{sl[0]}:{sl[1]}] = {list(vals)} -> raised={raised}, now {after}: {clause}',
                                      size=k + len(vals))
    out.sample(dict(cls='Predicates', universe=[list(t) for t in WIDE], assignments=n), limit=1)


# ====================================================================== domains (worker side)

class K4Error(Exception):
    "Raised by the icontract class invariant."


class Dom:
    """One container class plus the mapping model value <-> real element."""

    def __init__(self, name):
        self.name = name
        self.conflict = None
        self.sortkey = None
        self.has_wedge = False
        self.has_sort = True
        if name == 'qset':
            from pytableaux.tools.hybrids import qset
            self.cls = qset
            self.elems = list(U)
        elif name == 'linqset':
            from pytableaux.tools.linked import linqset
            self.cls = linqset
            self.elems = list(U)
            self.has_wedge = True
            self.has_sort = hasattr(linqset, 'sort')
        elif name == 'Predicates':
            from pytableaux.lang import Predicate
            from pytableaux.lang.collect import Predicates
            self.cls = Predicates
            self.elems = [Predicate(s) for s in PRED_SPECS]
            arity = [p.arity for p in self.elems]
            bico = [tuple(p.bicoords) for p in self.elems]
            self.conflict = lambda x, y: bico[x] == bico[y] and arity[x] != arity[y]
            self.sortkey = lambda i: self.elems[i]
        else:
            raise ValueError(name)
        self.is_pred = name == 'Predicates'
        self.keys = {e: i for i, e in enumerate(self.elems)}
        self.valid = sm.make_valid(self.conflict)
        self.ops = sm.all_ops(self.has_wedge, self.has_sort)
        self.compact = sm.compact_ops(self.has_wedge, self.has_sort)
        self.kinds = sm.op_kinds(self.has_wedge, self.has_sort)

    def elem(self, v):
        return self.elems[v]

    def key(self, x):
        try:
            k = self.keys[x]
        except (KeyError, TypeError):
            return ('?', repr(x)[:40])
        if not self.is_pred and type(x) is not int:
            return ('?', repr(x)[:40])
        return k

    def make(self, vals):
        return self.cls([self.elems[v] for v in vals])

    def listof(self, c):
        # capped: a corrupted link chain may be cyclic
        key = self.key
        return [key(x) for x in islice(iter(c), CAP)]


_DOMS = {}


def dom_for(name):
    if name not in _DOMS:
        _DOMS[name] = Dom(name)
    return _DOMS[name]


# ====================================================================== K4 invariant (public API only)

K4_STATS = dict(calls=0)


def k4(c, dom, deep=True):
    """Return None if the container is internally consistent, else the name of the broken clause.

    Only the public API is used; every library call is guarded."""
    K4_STATS['calls'] += 1
    key = dom.key
    E = dom.elems
    try:
        L = [key(x) for x in islice(iter(c), CAP)]
    except Exception:
        return 'iter-raises'
    n = len(L)
    if n >= CAP:
        return 'iteration-unbounded'
    if any(type(k) is tuple for k in L):
        return 'foreign-element'
    if len(set(L)) != n:
        return 'duplicates'
    if dom.is_pred:
        members = [E[v] for v in L]
        for i, p in enumerate(members):
            for q in members[i + 1:]:
                if p.bicoords == q.bicoords and p.arity != q.arity:
                    return 'arity-conflict'
    try:
        ln = len(c)
    except Exception:
        return 'len-raises'
    if ln != n:
        return 'len'
    stale = missing = False
    for v in U:
        try:
            has = E[v] in c
        except Exception:
            return 'contains-raises'
        if has and v not in L:
            stale = True
        elif not has and v in L:
            missing = True
    if stale or missing:
        return 'membership-' + '+'.join(w for w, f in (('stale', stale), ('missing', missing)) if f)
    try:
        R = [key(x) for x in islice(reversed(c), CAP)]
    except Exception:
        return 'reversed-raises'
    if R != L[::-1]:
        return 'reversed'
    for i in range(n):
        try:
            if key(c[i]) != L[i] or key(c[i - n]) != L[i]:
                return 'getitem'
        except Exception:
            return 'getitem-raises'
    for bad in (n, -n - 1):
        try:
            c[bad]
        except Exception:
            pass
        else:
            return 'getitem-bad-index-no-raise'
    for v in U:
        if v in L:
            try:
                if c.index(E[v]) != L.index(v):
                    return 'index'
                if c.count(E[v]) != 1:
                    return 'count'
            except Exception:
                return 'index-raises'
        else:
            try:
                c.index(E[v])
            except Exception:
                pass
            else:
                return 'index-of-non-member-no-raise'
            try:
                if c.count(E[v]) != 0:
                    return 'count'
            except Exception:
                return 'count-raises'
    if deep:
        for s in sm.SLICES:
            try:
                part = c[slice(*s)]
                P = [key(x) for x in islice(iter(part), CAP)]
            except Exception:
                return 'getslice-raises'
            if P != L[slice(*s)]:
                return 'getslice'
    if dom.has_wedge:
        # walk the link chain from every member, both directions
        for i, v in enumerate(L):
            try:
                fw = [key(x) for x in islice(c.iter_from_value(E[v]), CAP)]
                bw = [key(x) for x in islice(c.iter_from_value(E[v], reverse=True), CAP)]
            except Exception:
                return 'link-chain-raises'
            if fw != L[i:] or bw != L[i::-1]:
                return 'link-chain'
        for v in U:
            if v not in L:
                try:
                    list(islice(c.iter_from_value(E[v]), CAP))
                except Exception:
                    pass
                else:
                    return 'link-chain-from-non-member-no-raise'
    if dom.is_pred:
        member_refs = set()
        for p in members:
            try:
                refs = list(p.refs)
                member_refs.update(refs)
                for ref in refs + [p]:
                    if c.get(ref) != p:
                        return 'lookup-member-wrong'
                    if ref not in c:
                        return 'lookup-member-ref-not-contained'
            except Exception:
                return 'lookup-member-not-found'
        for v in U:
            if v in L:
                continue
            q = E[v]
            for ref in q.refs:
                if ref in member_refs:
                    continue
                try:
                    got = c.get(ref, None)
                    inn = ref in c
                except Exception:
                    return 'lookup-raises'
                if got is not None or inn:
                    return 'lookup-finds-non-member'
    return None


def snapshot(c, dom):
    try:
        return (dom.listof(c), len(c), tuple(e in c for e in dom.elems))
    except Exception as e:
        return ('snapshot-raises', type(e).__name__)


# ====================================================================== icontract installation

IC = dict(on=False, evals=0, installed={}, last=None)


def k4_invariant_holds(self):
    if not IC['on']:
        return True
    dom = IC['dom']
    if type(self) is not dom.cls:
        return True
    IC['evals'] += 1
    IC['on'] = False
    try:
        prob = k4(self, dom, deep=False)
    finally:
        IC['on'] = True
    IC['last'] = prob
    return prob is None


def k4_invariant_error(self):
    return K4Error(f'K4 invariant broken on {type(self).__name__}: {IC["last"]}')


def install_icontract(dom, rec):
    """Decorate the real class in place. Returns True when the invariant is installed."""
    if dom.name in IC['installed']:
        return IC['installed'][dom.name]
    ok = False
    try:
        import icontract
        unlock = None
        if dom.is_pred:
            # the lang metaclass forbids class attribute assignment after start-up
            import pytableaux.lang as L
            unlock = getattr(L, 'nosetattr', None)
        old = None
        if unlock is not None:
            old = unlock.enabled
            unlock.enabled = False
        try:
            icontract.invariant(k4_invariant_holds, error=k4_invariant_error)(dom.cls)
        finally:
            if unlock is not None:
                unlock.enabled = old
        ok = True
    except Exception as e:
        rec.note(f'icontract could not wrap {dom.name} ({type(e).__name__}: {str(e)[:120]}); '
                 'explicit after-each-operation K4 check only')
    IC['installed'][dom.name] = ok
    return ok


# ====================================================================== executing one operation

def do_op(c, op, dom, operand=None):
    name = op[0]
    a = op[1:]
    E = dom.elems
    if name == 'append':
        return c.append(E[a[0]])
    if name == 'add':
        return c.add(E[a[0]])
    if name == 'insert':
        return c.insert(a[0], E[a[1]])
    if name == 'wedge':
        return c.wedge(E[a[0]], E[a[1]], a[2])
    if name == 'remove':
        return c.remove(E[a[0]])
    if name == 'discard':
        return c.discard(E[a[0]])
    if name == 'pop':
        return c.pop() if a[0] is None else c.pop(a[0])
    if name == 'delitem':
        del c[a[0]]
        return None
    if name == 'delslice':
        del c[slice(*a[0])]
        return None
    if name == 'setitem':
        c[a[0]] = E[a[1]]
        return None
    if name == 'setslice':
        c[slice(*a[0])] = [E[v] for v in a[1]]
        return None
    if name == 'clear':
        return c.clear()
    if name == 'reverse':
        return c.reverse()
    if name == 'sort':
        return c.sort(reverse=bool(a[0]))
    if name == 'copy':
        return c.copy()
    if name == 'extend':
        return c.extend([E[v] for v in a[0]])
    if name == 'update':
        return c.update([E[v] for v in a[0]])
    if name == 'iadd':
        return operator.iadd(c, [E[v] for v in a[0]])
    if name == 'ior':
        return operator.ior(c, [E[v] for v in a[0]])
    if name == 'iand':
        return operator.iand(c, [E[v] for v in a[0]])
    if name == 'isub':
        return operator.isub(c, [E[v] for v in a[0]])
    if name == 'ixor':
        return operator.ixor(c, [E[v] for v in a[0]])
    if name == 'ior_self':
        return operator.ior(c, c)
    if name == 'iand_self':
        return operator.iand(c, c)
    if name == 'isub_self':
        return operator.isub(c, c)
    if name == 'ixor_self':
        return operator.ixor(c, c)
    if name == 'extend_self':
        return c.extend(c)
    if name == 'or':
        return c | operand
    if name == 'and':
        return c & operand
    if name == 'sub':
        return c - operand
    if name == 'xor':
        return c ^ operand
    if name == 'plus':
        return c + operand
    raise ValueError(f'unknown op {op!r}')


class NullRec:
    "Recorder that records nothing (shrinking, replay)."

    def count(self, *a, **k):
        pass

    cover = note = inconc = sample = count


_VERIFIED_STARTS = set()


class Runner:
    """Drives one container and its model through a sequence; ``step`` returns a violation dict or None."""

    def __init__(self, dom, start, rec, ic=False):
        self.dom = dom
        self.rec = rec
        self.ic = ic
        self.m = list(start)
        self.fail = None
        IC['on'] = False
        try:
            self.c = dom.make(start)
        except Exception as e:
            self.c = None
            self.fail = self._viol('outcome', ['construct', list(start)], 'valid-values', 'must-succeed-raised', e,
                                   f'{dom.name}({start}) raised {e!r}')
            return
        sk = (dom.name, tuple(start))
        if sk in _VERIFIED_STARTS:
            return
        prob = k4(self.c, dom)
        if prob is None and dom.listof(self.c) != self.m:
            prob = 'model-mismatch'
        if prob is None:
            _VERIFIED_STARTS.add(sk)
        if prob:
            self.fail = self._viol('invariant' if prob != 'model-mismatch' else 'outcome', ['construct', list(start)],
                                   'valid-values', ('invariant:' + prob) if prob != 'model-mismatch' else prob, None,
                                   f'{dom.name}({start}) -> {self._show()}: {prob}')

    # -- helpers
    def _show(self):
        try:
            return repr(self.dom.listof(self.c))
        except Exception as e:
            return f'<unlistable: {e!r}>'

    def _viol(self, kind, op, situation, clause, error, message):
        if situation.startswith('clean'):
            situation = 'clean'
        return dict(kind=kind,
                    diagnosis=dict(cls=self.dom.name, op=op[0], situation=situation, clause=clause,
                                   error=type(error).__name__ if error is not None else None),
                    message=message)

    # -- light replay of an already verified prefix
    def light(self, op):
        dom = self.dom
        operand = None
        try:
            if op[0] in sm.BINARY:
                operand = dom.make(op[1])
            ret = do_op(self.c, op, dom, operand)
            if op[0] == 'copy':
                self.c = ret
        except Exception:
            pass
        try:
            self.m = dom.listof(self.c)
        except Exception:
            pass
        self.rec.count('ops_replayed_light')

    # -- one monitored operation
    def step(self, op):
        dom, rec, c, m = self.dom, self.rec, self.c, self.m
        name = op[0]
        sp = sm.spec_for(m, op, dom.conflict, dom.sortkey)
        sit = sp.situation
        rec.count('ops_executed')
        rec.cover('ops', name)
        rec.cover('situations', f'{name}:{sit}:{sp.expect}')
        before = snapshot(c, dom)
        operand = None
        if name in sm.BINARY:
            try:
                operand = dom.make(op[1])
            except Exception as e:
                return self._viol('outcome', ['construct'], 'valid-values', 'must-succeed-raised', e,
                                  f'{dom.name}({op[1]}) raised {e!r}')
        raised = None
        ret = None
        IC['on'] = self.ic
        try:
            ret = do_op(c, op, dom, operand)
        except K4Error as e:
            IC['on'] = False
            prob = k4(c, dom)
            rec.count('k4_checks')
            rec.count('k4_icontract_alarms')
            if prob is None:
                rec.inconc('icontract-alarm-unconfirmed')
                rec.note(f'icontract alarm not confirmed by the explicit check: {dom.name} {op} {e}')
                return dict(kind=None)
            return dict(kind='k4-icontract',
                        diagnosis=dict(cls=dom.name, clause='invariant:' + prob, monitor='icontract'),
                        message=f'{dom.name} {m} {op}: icontract class invariant fired ({e}); explicit check: {prob}; '
                                f'container now {self._show()}')
        except Exception as e:
            raised = e
        finally:
            IC['on'] = False
        if raised is not None:
            rec.cover('errors', f'{name}:{type(raised).__name__}')

        # ---- copy: verify the copy, check independence, continue on the copy
        if name == 'copy' and raised is None:
            new = ret
            if type(new) is not type(c):
                return self._viol('outcome', op, sit, 'copy-wrong-type', None,
                                  f'{dom.name}.copy() returned {type(new).__name__}')
            if snapshot(new, dom) != before:
                prob = k4(new, dom)
                return self._viol('invariant' if prob else 'outcome', op, sit,
                                  ('invariant:' + prob) if prob else 'copy-differs', None,
                                  f'{dom.name} {m}: copy() gave {snapshot(new, dom)}, original {before}'
                                  + (f'; K4 clause {prob} broken on the copy' if prob else ''))
            probes = [('reverse',), ('add', next((v for v in U if v not in m and dom.valid(m + [v])), None)),
                      ('discard', m[0] if m else None), ('clear',)]
            for pr in probes:
                if len(pr) == 2 and pr[1] is None:
                    continue
                try:
                    do_op(c, list(pr), dom)
                except Exception:
                    pass
                if snapshot(new, dom) != before:
                    return self._viol('outcome', op, sit, 'copy-not-independent', None,
                                      f'{dom.name} {m}: after copy(), {pr} on the original changed the copy to '
                                      f'{snapshot(new, dom)}')
            rec.count('copy_independence_checks')
            c = self.c = new

        # ---- observe
        rec.count('k4_checks')
        prob = k4(c, dom)
        after = snapshot(c, dom)
        L2 = after[0] if isinstance(after[0], list) else None
        desc = (f'{dom.name} {m} {name}{tuple(op[1:])} '
                f'{"raised " + repr(raised)[:120] if raised is not None else "returned"} -> {self._show()}')
        if prob is not None:
            return self._viol('invariant', op, sit, 'invariant:' + prob, raised,
                              f'{desc}: K4 clause {prob} broken (expected outcome: {sp.expect}, permitted {sp.ok})')
        if L2 is None:
            return self._viol('invariant', op, sit, 'invariant:snapshot-raises', raised, f'{desc}: {after}')
        self.m = L2
        rec.cover('states:' + dom.name, tuple(L2))
        if raised is not None:
            unchanged = L2 == m and after == before
            if sp.expect == 'must':
                return self._viol('outcome', op, sit, 'must-succeed-raised' if unchanged else 'must-succeed-raised-and-changed',
                                  raised, f'{desc}: a well-defined operation on valid arguments must succeed')
            if unchanged:
                rec.count('ops_raised_and_checked_unchanged')
                return None
            if L2 in sp.raise_states:
                rec.count('ops_raised_bulk_prefix_applied')
                return None
            return self._viol('outcome', op, sit, 'changed-after-raise', raised,
                              f'{desc}: not the pre-state and not a permitted prefix state {sp.raise_states}')
        # returned normally
        if L2 not in sp.ok:
            clause = 'model-mismatch' if sp.ok else 'no-raise-and-no-valid-result'
            return self._viol('outcome', op, sit, clause, None, f'{desc}: permitted post-states {sp.ok} ({sp.expect})')
        if sp.expect == 'raise':
            rec.count('lenient_silent_outcome_accepted')
        elif sp.expect == 'either':
            rec.count('ambiguous_applied')
        else:
            rec.count('ops_must_succeed_ok')
        # returned value
        if sp.ret is not None:
            kind = sp.ret[0]
            if kind == 'value':
                if dom.key(ret) != sp.ret[1]:
                    return self._viol('outcome', op, sit, 'return-value', None, f'{desc}: returned {ret!r}, model {sp.ret[1]}')
            elif kind == 'self':
                if ret is not c:
                    return self._viol('outcome', op, sit, 'inplace-returned-other-object', None, f'{desc}: returned {ret!r}')
            elif kind == 'set':
                rprob = k4(ret, dom) if type(ret) is type(c) else None
                rec.count('k4_checks')
                try:
                    got = dom.listof(ret)
                except Exception:
                    got = None
                if rprob is not None:
                    return self._viol('invariant', op, sit, 'result-invariant:' + rprob, None,
                                      f'{desc}: result {got} breaks K4 clause {rprob}')
                if got is None or len(set(got)) != len(got) or frozenset(got) != sp.ret[1]:
                    return self._viol('outcome', op, sit, 'result-mismatch', None,
                                      f'{desc}: result {got}, expected the set {sorted(sp.ret[1])}')
                rec.count('set_algebra_results_checked')
        return None


def run_sequence(dom, start, ops, rec, ic=False, light_prefix=0):
    """Execute ``ops``; the first ``light_prefix`` ops are replayed without monitoring (already verified).

    Returns (index, violation) of the first violation or (None, runner)."""
    r = Runner(dom, start, rec, ic)
    if r.fail:
        return -1, r.fail
    for i, op in enumerate(ops):
        if i < light_prefix:
            r.light(op)
            continue
        v = r.step(op)
        if v is not None:
            return i, v
    return None, r


def is_nontrivial(ops):
    return len(ops) >= 2 and any(op[0] in sm.MUTATORS for op in ops)


def report(out, dom, start, ops, idx, v, ic=False, do_shrink=False):
    if v.get('kind') is None:
        return
    ops = [list(o) for o in ops[:idx + 1]] if idx >= 0 else []
    if do_shrink and (len(ops) > 1 or start):
        start, ops = shrink(dom, start, ops, v, ic)
        out.count('witnesses_shrunk')
        r = same_violation(dom, start, ops, v, ic)
        if r is not None:
            v = r[1]
    case = dict(cls=dom.name, start=list(start), ops=ops, ic=bool(ic))
    out.violation(v['kind'], case, v['diagnosis'], v['message'], size=len(ops))


def same_violation(dom, start, ops, want, ic):
    idx, v = run_sequence(dom, start, ops, NullRec(), ic)
    if idx is None or v.get('kind') != want['kind'] or v.get('diagnosis') != want['diagnosis']:
        return None
    return idx, v


def shrink(dom, start, ops, want, ic=False):
    """Greedy: drop operations (and the start elements) while the same diagnosis persists."""
    changed = True
    rounds = 0
    while changed and rounds < 4:
        changed = False
        rounds += 1
        i = len(ops) - 2
        while i >= 0:
            cand = ops[:i] + ops[i + 1:]
            r = same_violation(dom, start, cand, want, ic)
            if r is not None:
                ops = cand[:max(r[0], 0) + 1]
                changed = True
                i = min(i, len(ops) - 1)
            i -= 1
        if start:
            r = same_violation(dom, [], ops, want, ic)
            if r is not None:
                start = []
                ops = ops[:max(r[0], 0) + 1]
                changed = True
    return start, ops


# ====================================================================== internal fingerprint (pruning only)

def fingerprint(c, dom):
    """Complete hidden state, read from the private fields. Used ONLY to decide which prefixes of the
    breadth-first enumeration are extended; None (= never prune) if the fields cannot be read."""
    key = dom.key
    try:
        if dom.has_wedge:
            fw = []
            ids = {}
            link = c.__link_first__
            while link is not None and len(fw) < 50:
                ids[id(link)] = len(fw)
                fw.append(key(link.value))
                link = link.next
            bw = []
            link = c.__link_last__
            while link is not None and len(bw) < 50:
                bw.append(key(link.value))
                link = link.prev
            table = getattr(c, '_linqset__table')
            tab = frozenset((key(k), ids.get(id(l), -1), key(l.value)) for k, l in table.items())
            return ('L', tuple(fw), tuple(bw), getattr(c, '_linkseq__len'), tab)
        fp = ('Q', tuple(key(x) for x in c._seq_), frozenset(key(x) for x in c._set_))
        if dom.is_pred:
            fp += (frozenset((repr(k), key(p)) for k, p in c._lookup.items()),)
        return fp
    except Exception:
        return None


# ====================================================================== units (worker side)

def _emit_case(out, dom, start, ops):
    out.case((dom.name, tuple(start), json.dumps(ops)), nontrivial=is_nontrivial(ops))


def run_exh(unit, out):
    dom = dom_for(unit['cls'])
    start = STARTS[unit['start']]
    ops = dom.ops
    first = [op for i, op in enumerate(ops) if i % unit['ngroups'] == unit['group']]
    out.count('op_instances', len(first))
    for k in dom.kinds:
        out.cover('op_kinds:' + dom.name, k)
    if not dom.has_sort:
        out.note(f'{dom.name} has no sort(): the sort operation is not exercised for it')
    n_seq = 0
    reported = set()

    shrunk = {}

    def rep(seq, idx, v):
        # the same failing (shorter) sequence is met again below other prefixes: report once
        k = json.dumps(seq[:idx + 1])
        if k in reported:
            return
        reported.add(k)
        dk = json.dumps(v.get('diagnosis'), sort_keys=True)
        shrunk[dk] = shrunk.get(dk, 0) + 1
        report(out, dom, start, seq, idx, v, do_shrink=shrunk[dk] <= 3)

    # (1) every sequence to depth D, no pruning (depth-first; a failing sequence is not extended)
    done = set()

    def dfs(prefix, first_ops, all_ops_, D, counter):
        nonlocal n_seq
        for op in (first_ops if not prefix else all_ops_):
            seq = prefix + [op]
            k = json.dumps(seq)
            if k in done:
                fresh = False
                idx, res = run_sequence(dom, start, seq, NullRec(), light_prefix=len(prefix))
            else:
                fresh = True
                if len(seq) <= 2:
                    done.add(k)
                idx, res = run_sequence(dom, start, seq, out, light_prefix=len(prefix))
                n_seq += 1
                _emit_case(out, dom, start, seq)
                out.count(counter)
                if n_seq % 5000 == 1:
                    out.sample(dict(cls=dom.name, start=start, ops=seq), limit=2)
            if idx is not None:
                if fresh:
                    rep(seq, idx, res)
                continue
            if len(seq) < D:
                dfs(seq, first_ops, all_ops_, D, counter)

    D = unit['depth_full']
    dfs([], first, ops, D, 'exh_sequences_unpruned')
    if unit.get('depth_compact', 0) > D:
        # deeper, over the compact instance set (one to four representative arguments per kind)
        comp = dom.compact
        cfirst = [op for i, op in enumerate(comp) if i % unit['ngroups'] == unit['group']]
        out.count('op_instances_compact', len(cfirst))
        dfs([], cfirst, comp, unit['depth_compact'], 'exh_sequences_unpruned_compact')

    # (2) breadth first, extending only prefixes that reached a new (hidden state, model) pair
    visited = set()
    frontier = [[]]
    closure = False
    for depth in range(1, unit['depth_bfs'] + 1):
        nxt = []
        for prefix in frontier:
            for op in (first if not prefix else ops):
                seq = prefix + [op]
                if len(seq) <= D:
                    # already executed (and counted) by the unpruned pass: only classify the state
                    idx, res = run_sequence(dom, start, seq, NullRec(), light_prefix=len(prefix))
                else:
                    idx, res = run_sequence(dom, start, seq, out, light_prefix=len(prefix))
                    _emit_case(out, dom, start, seq)
                    out.count('exh_sequences_bfs')
                if idx is not None:
                    if len(seq) > D:
                        rep(seq, idx, res)
                    continue
                fp = fingerprint(res.c, dom)
                if fp is None:
                    out.count('fingerprint_unreadable')
                    nxt.append(seq)
                    continue
                k = (fp, tuple(res.m))
                if k in visited:
                    out.count('exh_prefixes_pruned_equivalent_state')
                    continue
                visited.add(k)
                nxt.append(seq)
        frontier = nxt
        out.count(f'exh_frontier_depth_{depth}', len(frontier))
        if not frontier:
            closure = True
            break
    out.count('exh_hidden_states_distinct', len(visited))
    if closure:
        out.count('exh_units_reached_closure')


def run_rnd(unit, out, seed, ic=False):
    import random
    rng = random.Random(f'{seed}:{unit["name"]}')
    dom = dom_for(unit['cls'])
    if ic:
        ic = install_icontract(dom, out)
        IC['dom'] = dom
        out.count('icontract_installed' if ic else 'icontract_fallback_explicit_only')
    weights_by = sm.PROFILES[unit['profile']]
    kinds = dom.kinds
    weights = [weights_by.get(k, 1) for k in kinds]
    out.cover('profiles', unit['profile'])
    operand_ok = dom.valid
    shrunk_per_diag = {}
    for s in range(unit['nseq']):
        start = list(STARTS['two' if rng.random() < 0.5 else 'empty'])
        r = Runner(dom, start, out, ic)
        ops = []
        viol = None
        if r.fail:
            viol = (-1, r.fail)
        else:
            for i in range(unit['depth']):
                op = sm.random_op(rng, r.m, kinds, weights, operand_ok)
                ops.append(op)
                v = r.step(op)
                if v is not None:
                    viol = (i, v)
                    break
        _emit_case(out, dom, start, ops)
        out.count('random_sequences')
        out.count('random_sequence_ops_total', len(ops))
        if viol is None:
            out.count('random_sequences_full_depth')
            if s % 200 == 0:
                out.sample(dict(cls=dom.name, start=start, ops=ops[:8] + ['...'], final=r.m), limit=2)
            continue
        idx, v = viol
        if v.get('kind') is None:
            continue
        dk = json.dumps(v['diagnosis'], sort_keys=True)
        nd = shrunk_per_diag.get(dk, 0)
        shrunk_per_diag[dk] = nd + 1
        report(out, dom, start, ops, idx, v, ic=ic, do_shrink=nd < 3)
    if ic:
        out.count('k4_invariant_evaluations', IC['evals'])
    out.count('k4_public_api_evaluations_total', K4_STATS['calls'])


def run_unit(unit, out, tier, seed):
    mode = unit['mode']
    if mode == 'exh':
        run_exh(unit, out)
    elif mode == 'rnd':
        run_rnd(unit, out, seed)
    elif mode == 'ic':
        run_rnd(unit, out, seed, ic=True)
    elif mode == 'preds-wide':
        run_preds_wide(unit, out, tier, seed)
    elif mode == 'long':
        run_long(unit, out, tier, seed)
    else:
        raise ValueError(mode)


def finalize(info):
    """Driver side: distinct model states observed per class (from the coverage sets)."""
    covers = info.get('covers', {})
    return dict(states_distinct={k.split(':', 1)[1]: len(v) for k, v in sorted(covers.items()) if k.startswith('states:')},
                operation_kinds_exercised=len(covers.get('ops', ())),
                situations_exercised=len(covers.get('situations', ())))


def replay(wit):
    c = wit['case']
    if wit.get('kind') == 'preds-wide':
        from ..worker import Out
        out = Out()
        run_preds_wide({}, out, 'thorough', 0)
        same = [v for v in out.violations if v['diagnosis'] == wit['diagnosis']]
        return dict(violates=bool(same), detail=[v['message'] for v in same][:3])
    if wit.get('kind') == 'long-container':
        from ..worker import Out
        out = Out()
        for k in range(6):
            run_long(dict(name=f"long:{c['cls']}:{k}", cls=c['cls'], nseq=400), out, 'thorough', 0)
        same = [v for v in out.violations if v['diagnosis'] == wit['diagnosis']]
        return dict(violates=bool(same), detail=[v['message'] for v in same][:3])
    dom = dom_for(c['cls'])
    ic = bool(c.get('ic'))
    rec = NullRec()
    if ic:
        ic = install_icontract(dom, rec)
        IC['dom'] = dom
    idx, v = run_sequence(dom, list(c['start']), [list(o) for o in c['ops']], rec, ic)
    if idx is None or v.get('kind') is None:
        return dict(violates=False, detail=dict(final=v.m if idx is None else None, ops=len(c['ops'])))
    return dict(violates=True, detail=dict(at_op=idx, kind=v['kind'], diagnosis=v['diagnosis'], message=v['message'],
                                           same_diagnosis=v['diagnosis'] == wit.get('diagnosis')))
