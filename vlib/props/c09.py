"""C09 - the verdict does not depend on how the proof is searched."""
from __future__ import annotations

import random
from itertools import permutations

from .. import gen, lib, proofcheck as pc, runs, shadow, tabs, workload
from ..ref import search, sem as rsem

ID = 'C09'
META = dict(
    level='exploration',
    exhaustive=False,
    rule=('per logic: arguments from the shared proof workload; each is run under 4 optimisation combos x {build, step loop} x '
          'tie-break order seeds (quick 2, thorough 6) and under premise permutations / duplications; outcome classes '
          '(VALID | INVALID with a limit-free open branch) are compared pairwise, limit-caused outcomes excluded; any '
          'configuration that raises is a violation. On disagreement REF-SEARCH and the branch-model monitor say which '
          'side is wrong. non-trivial = distinct (logic, argument) for which >= 2 configurations produced a verdict and '
          'the proof took >= 2 steps; schedules = distinct step-history signatures observed per argument.'),
    assumptions=['tie-break orders are enumerated through the PYTABLEAUX_VERIF hook (Node/Branch hash = permuted creation serial)',
                 'monitoring cap of 300/600 steps: capped runs have no verdict and are excluded (counted)'],
    min_events={'quick': {'arguments_compared': 1500, 'runs': 20000, 'logics': 52, 'distinct_signatures': 3000},
                'thorough': {'arguments_compared': 8000, 'runs': 150000, 'logics': 52}},
    budget=dict(quick=1500, thorough=7200),
    unit_timeout=dict(quick=900, thorough=3000),
)

NARGS = dict(quick=22, thorough=200)
ORDERS = dict(quick=(0, 1), thorough=(0, 1, 2, 5))
SPLIT = dict(quick=2, thorough=4)


def units(tier, seed):
    us = [dict(name=f'search:{n}:{k}', logic=n, part=k, parts=SPLIT[tier])
          for n in lib.STATIC_LOGICS for k in range(SPLIT[tier])]
    # determinism sentinel: the same cases in two fresh processes must give the same step histories
    us += [dict(name=f'sentinel:{i}', sentinel=i) for i in range(2)]
    return us


def run_sentinel(unit, out, tier, seed):
    rng = random.Random(f'{seed}:sentinel')
    for name in ('K', 'S4', 'CFOL', 'S5K3WQ', 'TFDE', 'D'):
        S = rsem.sem(name)
        cases = list(workload.cases(name, tabs.uses_designation(name), rng, n_random=6, with_examples=False))
        for i, (label, frag, arg) in enumerate(cases[::7]):
            for order in (0, 3):
                r = pc.run_cfg(name, arg, dict(group_optim=True, rank_optim=True), 'build', order, tier)
                out.count('sentinel_runs')
                out.cover('sentinel_signatures', f'{name}:{i}:{order}:{r.signature}:{r.outcome}')
    out.case(('sentinel', unit['sentinel']), nontrivial=False)


def finalize(agg):
    sets = [set(r.get('covers', {}).get('sentinel_signatures', ())) for r in agg['results'] if r.get('unit', '').startswith('sentinel:')]
    agg['covers'].pop('sentinel_signatures', None)
    if len(sets) == 2 and sets[0] and sets[0] == sets[1]:
        return dict(replay_fidelity='bit-for-bit across fresh processes (determinism sentinel: %d runs, identical step-history signatures)' % len(sets[0]))
    return dict(replay_fidelity='same-process-only (determinism sentinel disagreed or did not run)',
                sentinel_mismatches=len(sets[0] ^ sets[1]) if len(sets) == 2 else None)


def configs(tier):
    for g, k in runs.COMBOS:
        for driver in ('build', 'step'):
            for order in ORDERS[tier]:
                yield dict(group_optim=g, rank_optim=k), driver, order


def premise_variants(arg, rng):
    prem, conc = arg
    out = []
    if len(prem) >= 2:
        perms = list(permutations(prem))[1:]
        rng.shuffle(perms)
        out += [(p, conc) for p in perms[:3]]
    if prem:
        out.append((prem + (prem[0],), conc))
        out.append(((prem[-1],) + prem, conc))
    return out


def run_unit(unit, out, tier, seed):
    if 'sentinel' in unit:
        return run_sentinel(unit, out, tier, seed)
    name = unit['logic']
    if name not in lib.logic_names():
        out.note(f'logic {name} no longer registered')
        return
    S = rsem.sem(name)
    desig = tabs.uses_designation(name)
    if unit['part'] == 0:
        out.count('logics')
    out.cover('logics', name)
    rng = random.Random(f'{seed}:{name}:c09')
    allcases = list(workload.cases(name, desig, rng, n_random=NARGS[tier], with_examples=(tier == 'thorough'),
                                   n_rule_rounds=1))
    rng.shuffle(allcases)
    # quick: a seeded sample; always keep the hostile shapes that involve modal universals / identity
    if tier == 'quick':
        keep = [c for c in allcases if c[0].startswith('hostile:two-nec') or c[0].startswith('hostile:serial')
                or c[0].startswith('hostile:poss-under') or c[0].startswith('hostile:identity:multi')
                or ':refute:' in c[0] or c[0].startswith('hostile:fork-under-box:flip')]
        rest = [c for c in allcases if c not in keep]
        allcases = keep + rest[:NARGS[tier]]
    mine = allcases[unit['part']::unit['parts']]
    for i, (label, frag, arg) in enumerate(mine):
        compare(name, S, arg, out, tier, rng, label)
        if i % 15 == 2:
            out.sample(dict(logic=name, label=label, argument=gen.show_arg(arg)), limit=3)


def compare(name, S, arg, out, tier, rng, label=''):
    results = []
    sigs = set()
    for cfg, driver, order in configs(tier):
        r = pc.run_cfg(name, arg, cfg, driver, order, tier)
        out.count('runs')
        results.append((cfg, driver, order, r, arg))
        if r.signature:
            sigs.add(r.signature)
        if len(results) == 2 and all(x[3].outcome == 'NONE' for x in results):
            # both first configurations hit the monitoring cap: the rest would too
            out.count('arguments_skipped_after_two_capped_runs')
            break
    for varg in premise_variants(arg, rng):
        cfg, driver, order = dict(group_optim=True, rank_optim=True), 'build', 0
        r = pc.run_cfg(name, varg, cfg, driver, order, tier)
        out.count('runs')
        out.count('premise_variants')
        results.append((cfg, driver, order, r, varg))
    out.count('distinct_signatures', len(sigs))
    verdicts = [x for x in results if x[3].outcome in ('VALID', 'INVALID')]
    steps = max((x[3].steps for x in results), default=0)
    out.case((name, gen.arg_key(arg)), nontrivial=(len(verdicts) >= 2 and steps >= 2))
    out.count('arguments_compared')
    out.count('runs_without_verdict', sum(1 for x in results if x[3].outcome == 'NONE'))
    seen_err = set()
    for cfg, driver, order, r, a in results:
        if r.outcome == 'ERROR':
            k = (r.error['type'], r.error['site'], cfg['group_optim'], cfg['rank_optim'])
            if k not in seen_err:
                seen_err.add(k)
                pc.emit(out, pc.error_violation(name, S, a, r, cfg, driver, order, label))
    valids = [x for x in verdicts if x[3].outcome == 'VALID']
    invalids = [x for x in verdicts if x[3].outcome == 'INVALID']
    if valids and invalids:
        v, iv = valids[0], invalids[0]
        # who is wrong?
        blame = 'undetermined'
        detail = {}
        res = search.find_countermodel(S, arg[0], arg[1], rng=rng, **pc.SEARCH[tier])
        if res.model is not None:
            c = shadow.culprit_of_valid(name, v[4], res.model, dict(v[0], max_steps=pc.CAP[tier], order=v[2]))
            blame = 'valid-side-unsound'
            detail = dict(culprit_rule=(c or {}).get('rule'))
        else:
            r2 = pc.run_cfg(name, iv[4], iv[0], iv[1], iv[2], tier, models=True)
            vs = pc.monitor_invalid(name, S, iv[4], r2, iv[0], iv[1], iv[2], out, tier) if r2.outcome == 'INVALID' else []
            if vs:
                blame = 'invalid-side-bad-model'
                d = vs[0]['diagnosis']
                detail = dict(diag=d.get('diag'), node_kind=d.get('node_kind'), model_clause=d.get('clause'))
        differ = sorted({k for k in ('group_optim', 'rank_optim') if v[0][k] != iv[0][k]}
                        | ({'driver'} if v[1] != iv[1] else set()) | ({'order'} if v[2] != iv[2] else set())
                        | ({'premise-order/multiplicity'} if v[4] != iv[4] else set()))
        out.violation(
            'verdict-depends-on-search',
            dict(logic=name, label=label, argument=gen.arg_to_json(arg),
                 valid_under=dict(argument=gen.arg_to_json(v[4]), **pc.cfg_json(v[0], v[1], v[2])),
                 invalid_under=dict(argument=gen.arg_to_json(iv[4]), **pc.cfg_json(iv[0], iv[1], iv[2])),
                 n_valid=len(valids), n_invalid=len(invalids)),
            dict(clause='outcome-classes-differ', family=S.base_name, blame=blame, **detail),
            f'{name}: {gen.show_arg(arg)} is VALID under {v[0]} {v[1]} order={v[2]} but INVALID under {iv[0]} {iv[1]} order={iv[2]} '
            f'({len(valids)} vs {len(invalids)} configurations; differing in {differ}); blame={blame} {detail}',
            size=gen.arg_size(arg))


def replay(wit):
    from ..worker import Out
    out = Out()
    c = wit['case']
    S = rsem.sem(c['logic'])
    if wit['kind'] == 'build-raised':
        r = pc.run_cfg(c['logic'], gen.arg_from_json(c['argument']), c['cfg'], c['driver'], c['order'], 'thorough')
        return dict(violates=r.outcome == 'ERROR', detail=r.error)
    compare(c['logic'], S, gen.arg_from_json(c['argument']), out, 'thorough', random.Random(0), c.get('label', ''))
    return dict(violates=bool(out.violations), detail=[v['message'][:600] for v in out.violations])
