"""One unit (or one replay) of one property, in this fresh process.

stdin: JSON payload; stdout: last line MARK + JSON result.
"""
from __future__ import annotations

import hashlib
import importlib
import json
import signal
import sys
import traceback

MARK = '@@VERIF-RESULT@@'


class CaseTimeout(BaseException):
    "Wall-clock watchdog fired inside a case: the case is inconclusive."


class Out:
    """Collector handed to ``run_unit``. Everything in it is measured."""

    MAX_VIOL = 40

    def __init__(self):
        self.evaluations = 0
        self.nontrivial = set()
        self.counters = {}
        self.covers = {}
        self.samples = []
        self.violations = []
        self.inconclusive = 0
        self.notes = []
        self._vkeys = {}

    def case(self, key=None, nontrivial=True):
        """Count one evaluated case. ``key``: a hashable/JSON-able identity of
        the case; it is counted in distinct_nontrivial iff ``nontrivial``."""
        self.evaluations += 1
        if nontrivial and key is not None:
            self.nontrivial.add(hashlib.blake2b(
                repr(key).encode(), digest_size=8).hexdigest())

    def count(self, name, n=1):
        self.counters[name] = self.counters.get(name, 0) + n

    def cover(self, name, value):
        self.covers.setdefault(name, set()).add(str(value))

    def sample(self, obj, limit=4):
        if len(self.samples) < limit:
            self.samples.append(obj)

    def note(self, text):
        if len(self.notes) < 20 and text not in self.notes:
            self.notes.append(text)

    def inconc(self, why=None):
        self.inconclusive += 1
        if why:
            self.count('inconclusive:' + why)

    def violation(self, kind, case, diagnosis=None, message='', size=0, env=None, **extra):
        """Record a refuting execution. ``diagnosis`` is the mechanism-level
        classification used for grouping and known-finding matching."""
        self.count('violations_raw')
        key = json.dumps([kind, diagnosis], sort_keys=True, default=str)
        n = self._vkeys.get(key, 0)
        self._vkeys[key] = n + 1
        if n >= 3 or len(self.violations) >= self.MAX_VIOL:
            # keep the smallest witnesses per diagnosis
            for i, v in enumerate(self.violations):
                if v['_key'] == key and v.get('size', 0) > size:
                    self.violations[i] = dict(kind=kind, case=case, diagnosis=diagnosis or {},
                                              message=message, size=size, env=env or {}, _key=key, **extra)
                    break
            return
        self.violations.append(dict(kind=kind, case=case, diagnosis=diagnosis or {},
                                    message=message, size=size, env=env or {}, _key=key, **extra))

    def result(self):
        for v in self.violations:
            v.pop('_key', None)
        return dict(
            evaluations=self.evaluations,
            nontrivial=sorted(self.nontrivial),
            counters=self.counters,
            covers={k: sorted(v) for k, v in self.covers.items()},
            samples=self.samples,
            violations=self.violations,
            inconclusive=self.inconclusive,
            notes=self.notes)


class watchdog:
    """``with watchdog(seconds):`` raises CaseTimeout in the block after
    ``seconds`` of wall-clock time. Its firing means *inconclusive*."""

    def __init__(self, seconds):
        self.seconds = seconds

    def _fire(self, *_):
        raise CaseTimeout()

    def __enter__(self):
        self.old = signal.signal(signal.SIGALRM, self._fire)
        signal.setitimer(signal.ITIMER_REAL, self.seconds)
        return self

    def __exit__(self, *exc):
        signal.setitimer(signal.ITIMER_REAL, 0)
        signal.signal(signal.SIGALRM, self.old)
        return False


def main():
    prop, mode = sys.argv[1], sys.argv[2]
    payload = json.loads(sys.stdin.read())
    mod = importlib.import_module(f'vlib.props.{prop.lower()}')
    if mode == 'unit':
        out = Out()
        try:
            mod.run_unit(payload['unit'], out, payload['tier'], payload['seed'])
        except CaseTimeout:
            out.inconc('unit-watchdog')
        except Exception:
            # a harness error is never a violation
            out.note('harness-error: ' + traceback.format_exc()[-1200:])
            out.count('harness_errors')
        res = out.result()
    elif mode == 'replay':
        res = mod.replay(payload)
    else:
        raise SystemExit(f'bad mode {mode}')
    sys.stdout.write('\n' + MARK + json.dumps(res, default=str) + '\n')
    sys.stdout.flush()


if __name__ == '__main__':
    main()
