"""Driver: ./check <id> [--tier quick|thorough] [--replay path]

Runs the property's units in fresh worker processes (subprocess.run with a
timeout each, never multiprocessing.Pool), aggregates what the monitors
observed, classifies violations against known_findings.json, writes
evidence/<id>.json and prints the three-valued verdict.

exit 0 held | exit 1 violation (VIOLATION line) | exit 2 inconclusive
"""
from __future__ import annotations

import argparse
import hashlib
import importlib
import json
import os
import subprocess
import sys
import time
from concurrent.futures import ThreadPoolExecutor

ROOT = os.path.dirname(os.path.dirname(os.path.abspath(__file__)))
sys.path.insert(1, os.path.join(ROOT, '.deps'))
REPO = os.environ.get('VERIF_REPO', '/repo')
PY = '/venv/bin/python'
MARK = '@@VERIF-RESULT@@'
NPROC = int(os.environ.get('VERIF_JOBS', '0') or 0) or (os.cpu_count() or 4)


def worker_env(extra=None):
    env = dict(os.environ)
    env.update(
        PYTHONPATH=os.pathsep.join([REPO, os.path.join(ROOT, '.deps'), ROOT]),
        PYTHONHASHSEED='0',
        PYTHONDONTWRITEBYTECODE='1',
        PYTABLEAUX_VERIF='1',
        VERIF_REPO=REPO)
    env.setdefault('PYTABLEAUX_VERIF_ORDER', '0')
    env.pop('ITEM_CACHE_SIZE', None)
    if extra:
        env.update({k: str(v) for k, v in extra.items()})
    return env


def run_worker(prop, mode, payload, timeout, env_extra=None):
    """Run one unit (or replay) in a fresh process. Returns (result|None, diag)."""
    t0 = time.time()
    try:
        p = subprocess.run(
            [PY, '-B', '-X', 'faulthandler', '-m', 'vlib.worker', prop, mode],
            input=json.dumps(payload), capture_output=True, text=True,
            timeout=timeout, env=worker_env(env_extra), cwd=ROOT)
    except subprocess.TimeoutExpired as e:
        return None, dict(reason='watchdog', wall=time.time() - t0,
                          tail=(e.stderr or b'')[-600:].decode('utf8', 'replace') if isinstance(e.stderr, bytes) else str(e.stderr)[-600:])
    for line in reversed(p.stdout.splitlines()):
        if line.startswith(MARK):
            try:
                return json.loads(line[len(MARK):]), dict(wall=time.time() - t0, rc=p.returncode)
            except ValueError:
                break
    return None, dict(reason='worker-died', rc=p.returncode, wall=time.time() - t0,
                      tail=(p.stderr or p.stdout)[-1500:])


def load_known():
    path = os.path.join(ROOT, 'known_findings.json')
    try:
        with open(path) as f:
            data = json.load(f)
    except FileNotFoundError:
        return []
    return [e for e in data.get('findings', []) if e.get('status') == 'known']


def match_known(known, prop, diag):
    for e in known:
        if e.get('property') != prop:
            continue
        ok = True
        for k, want in e.get('match', {}).items():
            have = diag.get(k)
            if isinstance(want, list):
                if have not in want:
                    ok = False
                    break
            elif have != want:
                ok = False
                break
        if ok:
            return e
    return None


def diag_key(v):
    d = v.get('diagnosis') or {}
    return json.dumps([v.get('kind'), d], sort_keys=True, default=str)


def main(argv=None):
    ap = argparse.ArgumentParser()
    ap.add_argument('prop')
    ap.add_argument('--tier', default=os.environ.get('VERIF_TIER') or 'quick', choices=['quick', 'thorough'])
    ap.add_argument('--replay')
    ap.add_argument('--jobs', type=int, default=NPROC)
    ap.add_argument('--only', help='substring filter on unit names (debugging; evidence is not written)')
    args = ap.parse_args(argv)
    prop = args.prop.upper()
    seed = int(os.environ.get('VERIF_SEED', '0') or 0)

    if prop == 'SELFTEST':
        from . import selftest
        return selftest.main(args)

    modname = f'vlib.props.{prop.lower()}'
    os.environ.setdefault('VERIF_REPO', REPO)
    try:
        mod = importlib.import_module(modname)
    except ModuleNotFoundError as e:
        print(f'INCONCLUSIVE property={prop} reason=no-such-check ({e})')
        return 2

    if args.replay:
        with open(args.replay) as f:
            wit = json.load(f)
        res, d = run_worker(prop, 'replay', wit, 600, wit.get('env'))
        if res is None:
            print(f'INCONCLUSIVE property={prop} reason=replay-{d.get("reason")} {d.get("tail", "")[-300:]}')
            return 2
        if res.get('violates'):
            print(f'VIOLATION property={prop} replay={args.replay}')
            print(json.dumps(res.get('detail'), default=str)[:2000])
            return 1
        print(f'HELD property={prop} replay did not violate: {json.dumps(res.get("detail"), default=str)[:500]}')
        return 0

    t0 = time.time()
    meta = mod.META
    units = mod.units(args.tier, seed)
    if args.only:
        units = [u for u in units if args.only in u['name']]
    budget = meta.get('budget', {}).get(args.tier, 600 if args.tier == 'quick' else 3600)
    unit_timeout = meta.get('unit_timeout', {}).get(args.tier, 240 if args.tier == 'quick' else 1500)

    results = []
    failures = []
    truncated = [0]

    def job(unit):
        if time.time() - t0 > budget:
            truncated[0] += 1
            return unit, None, dict(reason='budget-truncated')
        res, d = run_worker(prop, 'unit', dict(unit=unit, tier=args.tier, seed=seed),
                            unit.get('timeout', unit_timeout), unit.get('env'))
        return unit, res, d

    with ThreadPoolExecutor(max_workers=args.jobs) as ex:
        for unit, res, d in ex.map(job, units):
            if res is None:
                if d.get('reason') != 'budget-truncated':
                    failures.append(dict(unit=unit['name'], **d))
            else:
                res['unit'] = unit['name']
                res['wall'] = d.get('wall')
                results.append(res)

    if os.environ.get('VERIF_VERBOSE'):
        for r in sorted(results, key=lambda r: -(r.get('wall') or 0))[:12]:
            print(f"  unit {r['unit']}: {r.get('wall'):.1f}s evals={r.get('evaluations')}", file=sys.stderr)
    # ---- aggregate
    evaluations = 0
    nontrivial = set()
    counters = {}
    covers = {}
    samples = []
    violations = []
    inconclusive_cases = 0
    notes = []
    for r in results:
        evaluations += r.get('evaluations', 0)
        nontrivial.update(r.get('nontrivial', ()))
        for k, v in r.get('counters', {}).items():
            counters[k] = counters.get(k, 0) + v
        for k, v in r.get('covers', {}).items():
            covers.setdefault(k, set()).update(v)
        if len(samples) < 12:
            samples.extend(r.get('samples', [])[:2])
        violations.extend(r.get('violations', []))
        inconclusive_cases += r.get('inconclusive', 0)
        notes.extend(r.get('notes', []))

    known = load_known()
    groups = {}
    for v in violations:
        groups.setdefault(diag_key(v), []).append(v)
    new_groups = []
    known_hit = {}
    for key, vs in groups.items():
        vs.sort(key=lambda v: (v.get('size', 0), json.dumps(v.get('case'), sort_keys=True, default=str)))
        e = match_known(known, prop, dict(vs[0].get('diagnosis') or {}, kind=vs[0].get('kind')))
        if e is not None:
            rec = known_hit.setdefault(e['id'], dict(entry=e, count=0, example=vs[0]))
            rec['count'] += len(vs)
        else:
            new_groups.append(vs)

    os.makedirs(os.path.join(ROOT, 'replays'), exist_ok=True)
    viol_lines = []
    for vs in new_groups:
        w = dict(vs[0])
        w['property'] = prop
        w['count_in_run'] = len(vs)
        h = hashlib.sha1(diag_key(w).encode()).hexdigest()[:10]
        path = os.path.join('replays', f'{prop}-{h}.json')
        with open(os.path.join(ROOT, path), 'w') as f:
            json.dump(w, f, indent=1, default=str)
        viol_lines.append((path, w))

    # ---- verdict
    reasons = []
    min_events = meta.get('min_events', {}).get(args.tier, meta.get('min_events', {}).get('any', {}))
    for name, need in min_events.items():
        if counters.get(name, 0) < need:
            reasons.append(f'monitor {name} fired {counters.get(name, 0)} < {need}')
    if counters.get('harness_errors'):
        reasons.append(f"{counters['harness_errors']} harness error(s): " + ' || '.join(n for n in notes if n.startswith('harness-error'))[-900:])
    if failures:
        frac = len(failures) / max(1, len(units))
        if frac > 0.2 or any(f.get('reason') == 'worker-died' for f in failures):
            reasons.append(f'{len(failures)}/{len(units)} units failed: ' + '; '.join(
                f"{f['unit']}:{f.get('reason')}:{str(f.get('tail', ''))[-200:]!r}" for f in failures[:3]))
    if evaluations and inconclusive_cases / evaluations > 0.2:
        reasons.append(f'{inconclusive_cases}/{evaluations} cases inconclusive')
    if evaluations == 0:
        reasons.append('no case was evaluated')
    if hasattr(mod, 'finalize'):
        extra = mod.finalize(dict(counters=counters, covers=covers, evaluations=evaluations,
                                  tier=args.tier, results=results)) or {}
        reasons.extend(extra.pop('inconclusive', []))
    else:
        extra = {}

    wall = time.time() - t0
    exhaustive = bool(meta.get('exhaustive')) and not failures and not truncated[0]
    if isinstance(meta.get('exhaustive'), dict):
        exhaustive = bool(meta['exhaustive'].get(args.tier)) and not failures and not truncated[0]
    ev = dict(
        property_id=prop, tier=args.tier, seed=seed, level=meta.get('level', 'exploration'),
        coverage=dict(
            evaluations=evaluations,
            distinct_nontrivial=len(nontrivial),
            rule=meta['rule'],
            samples=samples[:12] or ['<none>'],
            exhaustive=exhaustive,
            monitor_events=dict(sorted(counters.items())),
            covered={k: sorted(map(str, v)) if len(v) <= 80 else dict(count=len(v), first=sorted(map(str, v))[:40])
                     for k, v in sorted(covers.items())},
            units=len(units), units_failed=failures[:10], units_truncated_by_budget=truncated[0],
            inconclusive_cases=inconclusive_cases,
            known_findings_hit={k: dict(count=v['count'], mechanism=v['entry'].get('mechanism')) for k, v in known_hit.items()},
            notes=sorted(set(notes))[:20],
            **extra),
        assumptions=meta.get('assumptions', []),
        wall_s=round(wall, 2),
        violations=len(new_groups))
    if not args.only:
        # evidence/ describes runs against /repo itself; a run pointed at another tree (VERIF_REPO: scratch worktrees with
        # seeded changes, the self-test) writes beside it, under the git-ignored .work/
        edir = os.path.join(ROOT, 'evidence') if os.path.realpath(REPO) == '/repo' else os.path.join(ROOT, '.work', 'evidence-other-tree')
        os.makedirs(edir, exist_ok=True)
        tmp = os.path.join(edir, f'.{prop}.json.tmp')
        with open(tmp, 'w') as f:
            json.dump(ev, f, indent=1, default=str)
        os.replace(tmp, os.path.join(edir, f'{prop}.json'))

    for k, rec in sorted(known_hit.items()):
        e = rec['entry']
        ex = rec['example']
        print(f"KNOWN-FINDING: property={prop} {e['id']} {e.get('mechanism', '')} "
              f"[{rec['count']} case(s) this run, e.g. {json.dumps(ex.get('case'), default=str)[:200]}]")
    if viol_lines:
        for path, w in viol_lines:
            print(f'VIOLATION property={prop} replay={path}')
            print(f"  kind={w.get('kind')} diagnosis={json.dumps(w.get('diagnosis'), default=str)[:400]}")
            print(f"  case={json.dumps(w.get('case'), default=str)[:400]}")
            print(f"  message={str(w.get('message'))[:400]}")
        return 1
    summary = (f'evaluations={evaluations} distinct_nontrivial={len(nontrivial)} '
               f'units={len(units)} wall={wall:.1f}s events={json.dumps(dict(sorted(counters.items())))[:600]}')
    if reasons:
        print(f'INCONCLUSIVE property={prop} reason={" | ".join(reasons)[:1500]}')
        print('  ' + summary)
        return 2
    print(f'HELD property={prop} tier={args.tier} seed={seed} {summary}')
    return 0


if __name__ == '__main__':
    sys.exit(main())
