"""Running real tableaux for the proof-workload checks and reading their
public observables."""
from __future__ import annotations

import hashlib

from . import lib, tabs
from .ref import syn
from .ref.sem import Interp

COMBOS = [(True, True), (True, False), (False, True), (False, False)]   # (group_optim, rank_optim)


def lib_argument(arg):
    from pytableaux.lang import Argument
    return Argument(syn.to_lib(arg[1]), [syn.to_lib(p) for p in arg[0]])


class Run:
    __slots__ = ('tab', 'outcome', 'error', 'steps', 'signature', 'quit_branches', 'open_free',
                 'opts', 'driver', 'order', 'logic', 'arg', 'entries')

    def summary(self):
        return dict(logic=self.logic, outcome=self.outcome, steps=self.steps, driver=self.driver,
                    order=self.order, opts=self.opts, error=self.error)


def has_quit_flag(branch):
    for node in branch:
        if node.get('flag') == 'quit' or node.get('quit'):
            return True
    return False


def classify(tab):
    """Outcome class from public observables only."""
    if tab.completed and tab.argument is not None:
        if len(tab.open) == 0:
            return 'VALID'
        if any(not has_quit_flag(b) for b in tab.open):
            return 'INVALID'
    return 'NONE'


def signature(tab):
    h = hashlib.blake2b(digest_size=8)
    for e in tab.history:
        t = e.target
        node = t.get('node')
        h.update(repr((e.rule.name,
                       tabs.show_spec(tabs.node_spec(node)) if node is not None else None,
                       t.get('world'), str(t.get('constant')), t.get('flag'))).encode())
    return h.hexdigest()


def run(logic, arg, *, group_optim=True, rank_optim=True, driver='build', order=0, max_steps=600,
        models=False, tap=None, extra_opts=None, after_step=None):
    """Execute one configuration. ``tap``: callable(tab) invoked on the empty
    tableau before logic/argument are set (so that trunk events are seen)."""
    from pytableaux.proof import Tableau
    r = Run()
    r.logic, r.arg, r.driver, r.order = logic, arg, driver, order
    r.opts = dict(is_group_optim=group_optim, is_rank_optim=rank_optim, max_steps=max_steps,
                  is_build_models=models, **(extra_opts or {}))
    r.error = None
    r.entries = None
    lib.set_order(order)
    tab = None
    try:
        tab = Tableau(**r.opts)
        if tap is not None:
            tap(tab)
        tab.logic = lib.logic(logic)
        tab.argument = lib_argument(arg)
        if driver == 'build':
            tab.build()
        else:
            entries = []
            while True:
                e = tab.step()
                if after_step is not None:
                    after_step(tab, e)
                if e is None:
                    break
                entries.append(e)
            r.entries = entries
    except Exception as e:  # the library raised: no verdict
        import traceback
        tb = traceback.extract_tb(e.__traceback__)
        site = next((f'{f.filename.split("pytableaux/")[-1]}:{f.name}' for f in reversed(tb)
                     if 'pytableaux' in f.filename), '?')
        r.error = dict(type=type(e).__name__, msg=str(e)[:200], site=site)
        r.tab = tab
        r.outcome = 'ERROR'
        r.steps = len(tab.history) if tab is not None else 0
        r.signature = None
        return r
    r.tab = tab
    r.outcome = classify(tab)
    r.steps = len(tab.history)
    r.signature = signature(tab)
    return r


# ------------------------------------------------------------------ models

def export_model(model, S):
    """Copy the *data* of a finished library model into a REF-SEM Interp."""
    worlds = sorted(int(w) for w in model.frames)
    R = {w: set() for w in worlds}
    for w1 in model.R:
        R.setdefault(int(w1), set()).update(int(w2) for w2 in model.R[w1])
    domain = sorted(syn.param_from_lib(c) for c in model.constants)
    atoms, opaques, preds = {}, {}, {}
    for w in worlds:
        fr = model.frames[w]
        for s, v in fr.atomics.items():
            atoms[(w, syn.from_lib(s))] = str(v)
        for s, v in fr.opaques.items():
            opaques[(w, syn.from_lib(s))] = str(v)
        for p, interp in fr.predicates.items():
            pt = syn.pred_from_lib(p)
            for params, v in interp.items():
                preds[(w, pt, tuple(syn.param_from_lib(x) for x in params))] = str(v)
    allw = sorted(set(worlds) | set(R) | {x for v in R.values() for x in v})
    return Interp(S, worlds=allw, R=R, domain=domain, atoms=atoms, preds=preds, opaques=opaques)


def step_rule_for_node(tab, node):
    "Names of the rules whose step targeted ``node``."
    out = []
    for e in tab.history:
        t = e.target
        if t.get('node') is node or (t.get('nodes') and node in t['nodes']):
            out.append(e.rule.name)
    return out
