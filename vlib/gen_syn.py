"""Generators shared by C12 / C13: REF-SYN sentence tuples and strings.

Everything here works on the tuple AST of ``vlib.ref.syn`` and on plain
strings. The only contact with the library is :class:`Alphabet`, which reads
the *data* of ``pytableaux.lang._symdata.parse_tables()`` (the documented
notation alphabets) - never a parser or a writer.

* :class:`SentenceGen` - seeded random sentences of the parsers' language
  (closed, no vacuous / re-bound quantifier, one arity per predicate symbol)
  over the full vocabulary.
* :func:`collision_families`, :func:`small_sentences` - deterministic families
  for the injectivity monitors.
* :func:`polish_tokens`, :func:`standard_tokens`, :func:`join_tokens` - an
  independent renderer over the parse-table alphabet.
* :func:`all_strings`, :func:`random_string`, :func:`mutate` - string spaces.
* :func:`shrink_sentence`, :func:`shrink_string` - greedy witnesses reducers.
"""
from __future__ import annotations

import itertools

from .ref import syn

SUBSCRIPTS = (0, 1, 2, 9, 10, 11, 99, 100, 12345)
SUB_WEIGHTS = (10, 4, 2, 1, 2, 2, 1, 1, 1)
UNARY = tuple(n for n, a in syn.OPERATORS if a == 1)
BINARY = tuple(n for n, a in syn.OPERATORS if a == 2)
N_ATOM, N_PARAM, N_PRED = 5, 4, 4
FOREIGN = ('é', '\x00', '☃')

# ---------------------------------------------------------------- alphabets


class Alphabet:
    """The documented alphabet of one notation, read from the parse-table data."""

    def __init__(self, notation):
        from pytableaux.lang import _symdata
        mapping = None
        for data in _symdata.parse_tables():
            n = data['notation']
            if str(getattr(n, 'name', n)) == notation and data.get('dialect', 'default') == 'default':
                mapping = dict(data['mapping'])
        if mapping is None:
            raise KeyError(notation)
        self.notation = notation
        self.chars = tuple(mapping)
        self.op, self.quant, self.syspred = {}, {}, {}
        self.var, self.const, self.pred, self.atom, self.digit = {}, {}, {}, {}, {}
        self.ws = []
        self.popen = self.pclose = None
        self.kind = {}
        for ch, (typ, val) in mapping.items():
            tname = typ.__name__ if isinstance(typ, type) else str(getattr(typ, 'name', typ))
            self.kind[ch] = tname
            if tname == 'Operator':
                self.op.setdefault(str(val.name), ch)
            elif tname == 'Quantifier':
                self.quant.setdefault(str(val.name), ch)
            elif tname == 'System':
                self.syspred.setdefault(str(val.name), ch)
            elif tname == 'Variable':
                self.var.setdefault(int(val), ch)
            elif tname == 'Constant':
                self.const.setdefault(int(val), ch)
            elif tname == 'Predicate':
                self.pred.setdefault(int(val), ch)
            elif tname == 'Atomic':
                self.atom.setdefault(int(val), ch)
            elif tname == 'digit':
                self.digit.setdefault(int(val), ch)
            elif tname == 'whitespace':
                self.ws.append(ch)
            elif tname == 'paren_open':
                self.popen = ch
            elif tname == 'paren_close':
                self.pclose = ch
        self.infix = self.popen is not None

    def reduced(self):
        "One or two representatives per character class (for longer exhaustive strings)."
        pick = []
        un = [self.op[n] for n in UNARY if n in self.op][:2]
        bi = [self.op[n] for n in BINARY if n in self.op][:1]
        pick += un + bi
        pick += list(self.quant.values())[:1]
        pick += list(self.syspred.values())
        pick += [self.var[0], self.const[0], self.const[1], self.pred[0], self.atom[0]]
        if self.popen:
            pick += [self.popen, self.pclose]
        pick += self.ws[:1] + [self.digit[0], self.digit[1]]
        seen, res = set(), []
        for c in pick:
            if c not in seen:
                seen.add(c)
                res.append(c)
        return tuple(res)

    # -- tokens
    def digits(self, n):
        return [self.digit[int(d)] for d in str(n)]

    def coord(self, sym, sub, rng=None, zeros=False):
        """A symbol with its subscript, as a list of characters. ``zeros``: False (canonical: nothing for 0),
        True (randomly an explicit 0 / leading zeros, needs ``rng``), 'explicit0' (every zero subscript written
        as one 0 digit), 'leading0' (one leading zero before every non-zero subscript)."""
        z = self.digit[0]
        if sub == 0:
            if zeros == 'explicit0':
                return [sym, z]
            if zeros is True and rng is not None and rng.random() < 0.3:
                return [sym] + [z] * rng.choice((1, 1, 2))
            return [sym]
        lead = []
        if zeros == 'leading0':
            lead = [z]
        elif zeros is True and rng is not None and rng.random() < 0.15:
            lead = [z] * rng.choice((1, 2))
        return [sym] + lead + self.digits(sub)

    def param(self, p, rng=None, zeros=False):
        return self.coord((self.const if p[0] == 'c' else self.var)[p[1]], p[2], rng, zeros)

    def predsym(self, p, rng=None, zeros=False):
        p = tuple(p)
        if p == syn.IDENTITY:
            return [self.syspred['Identity']]
        if p == syn.EXISTENCE:
            return [self.syspred['Existence']]
        return self.coord(self.pred[p[0]], p[1], rng, zeros)


def polish_tokens(t, A, rng=None, zeros=False):
    "Prefix rendering: list of tokens, each a list of characters."
    k = t[0]
    if k == 'A':
        return [A.coord(A.atom[t[1]], t[2], rng, zeros)]
    if k == 'P':
        return [A.predsym(t[1], rng, zeros)] + [A.param(p, rng, zeros) for p in t[2]]
    if k == 'Q':
        return [[A.quant[t[1]]], A.param(t[2], rng, zeros)] + polish_tokens(t[3], A, rng, zeros)
    out = [[A.op[t[1]]]]
    for x in t[2]:
        out += polish_tokens(x, A, rng, zeros)
    return out


def standard_tokens(t, A, infix=lambda t: False, outer=True, rng=None, zeros=False, _top=True):
    """Infix rendering over the standard alphabet. Binary operator sentences are
    parenthesised (the outermost pair only if ``outer``); unary operators and
    quantifiers are prefixes; predications are prefix, or ``param pred param..``
    when ``infix(t)`` says so (arity >= 2 only)."""
    k = t[0]
    if k == 'A':
        return [A.coord(A.atom[t[1]], t[2], rng, zeros)]
    if k == 'P':
        sym = A.predsym(t[1], rng, zeros)
        ps = [A.param(p, rng, zeros) for p in t[2]]
        if len(ps) >= 2 and infix(t):
            return [ps[0], sym] + ps[1:]
        return [sym] + ps
    if k == 'Q':
        return ([[A.quant[t[1]]], A.param(t[2], rng, zeros)]
                + standard_tokens(t[3], A, infix, outer, rng, zeros, False))
    if len(t[2]) == 1:
        return [[A.op[t[1]]]] + standard_tokens(t[2][0], A, infix, outer, rng, zeros, False)
    inner = (standard_tokens(t[2][0], A, infix, outer, rng, zeros, False) + [[A.op[t[1]]]]
             + standard_tokens(t[2][1], A, infix, outer, rng, zeros, False))
    if _top and not outer:
        return inner
    return [[A.popen]] + inner + [[A.pclose]]


def join_tokens(tokens, A, rng=None, ws=0.0, deep=False):
    """Concatenate tokens; with probability ``ws`` put 1..3 whitespace characters
    at each token boundary (and at both ends); ``ws='all'``: exactly one at every
    boundary (no rng needed); ``deep`` also inside tokens (between a symbol and
    its subscript digits, and between digits)."""
    if ws == 'all' and A.ws:
        sp = A.ws[0]
        if deep:
            return sp + sp.join(c for tok in tokens for c in tok) + sp
        return sp + sp.join(''.join(tok) for tok in tokens) + sp
    if rng is None or not ws or not A.ws:
        return ''.join(c for tok in tokens for c in tok)

    def gap():
        if rng.random() < ws:
            return ''.join(rng.choice(A.ws) for _ in range(rng.choice((1, 1, 2, 3))))
        return ''
    parts = [gap()]
    for tok in tokens:
        if deep:
            for i, c in enumerate(tok):
                if i:
                    parts.append(gap())
                parts.append(c)
        else:
            parts.extend(tok)
        parts.append(gap())
    return ''.join(parts)


def render_polish(t, A):
    return join_tokens(polish_tokens(t, A), A)


def render_standard(t, A, outer=True):
    return join_tokens(standard_tokens(t, A, outer=outer), A)

# ---------------------------------------------------------------- sentences


class SentenceGen:
    """Seeded random sentences of the parsers' language over the full vocabulary.

    One instance keeps one predicate-symbol -> arity map, so that every sentence
    it produces (e.g. the members of one argument) uses symbols consistently.
    """

    def __init__(self, rng, max_depth=5, arity=None, p_leaf=0.18, subs=SUBSCRIPTS, weights=SUB_WEIGHTS):
        self.rng = rng
        self.max_depth = max_depth
        self.arity = dict(arity or {})
        self.p_leaf = p_leaf
        self.subs = subs
        self.weights = weights

    def sub(self):
        return self.rng.choices(self.subs, self.weights)[0]

    def sentence(self, depth=None):
        d = self.max_depth if depth is None else depth
        # vary the depth so that small and large sentences both occur
        d = self.rng.choice(range(0, d + 1)) if self.rng.random() < 0.5 else d
        return self._gen(d, (), ())

    def _fresh_var(self, bound):
        for _ in range(50):
            v = ('v', self.rng.randrange(N_PARAM), self.sub())
            if v not in bound:
                return v
        for i in range(N_PARAM):
            for s in range(0, 1000):
                v = ('v', i, s)
                if v not in bound:
                    return v
        raise RuntimeError('no fresh variable')

    def _param(self, bound):
        r = self.rng
        if bound and r.random() < 0.45:
            return r.choice(bound)
        return ('c', r.randrange(N_PARAM), self.sub())

    def _pred(self, need):
        r = self.rng
        x = r.random()
        if x < 0.15 and need <= 2:
            return syn.IDENTITY
        if x < 0.25 and need <= 1:
            return syn.EXISTENCE
        for _ in range(60):
            sym = (r.randrange(N_PRED), self.sub())
            a = self.arity.get(sym)
            if a is None:
                a = r.randint(max(1, need), 3)
                self.arity[sym] = a
            if a >= need:
                return (sym[0], sym[1], a)
        for i in range(N_PRED):
            for s in range(200, 400):
                if (i, s) not in self.arity:
                    self.arity[i, s] = 3
                    return (i, s, 3)
        raise RuntimeError('no predicate')

    def _leaf(self, bound, must):
        r = self.rng
        if not must and r.random() < 0.4:
            return ('A', r.randrange(N_ATOM), self.sub())
        p = self._pred(len(must))
        ps = list(must)
        while len(ps) < p[2]:
            ps.append(self._param(bound))
        r.shuffle(ps)
        return ('P', p, tuple(ps))

    def _gen(self, d, bound, must):
        r = self.rng
        if d <= 0 or r.random() < self.p_leaf:
            return self._leaf(bound, must)
        x = r.random()
        if x < 0.30:
            return ('O', r.choice(UNARY), (self._gen(d - 1, bound, must),))
        if x < 0.72 or len(must) >= 3:
            left, right = [], []
            for v in must:
                side = r.randrange(3)
                if side != 1:
                    left.append(v)
                if side != 0:
                    right.append(v)
            dl, dr = d - 1, d - 1
            # keep one side shallow most of the time (bounded size)
            if r.random() < 0.6:
                if r.random() < 0.5:
                    dl = r.randrange(0, max(1, d - 1))
                else:
                    dr = r.randrange(0, max(1, d - 1))
            return ('O', r.choice(BINARY), (self._gen(dl, bound, tuple(left)), self._gen(dr, bound, tuple(right))))
        v = self._fresh_var(bound)
        return ('Q', r.choice(syn.QUANTIFIERS), v, self._gen(d - 1, bound + (v,), must + (v,)))


def in_language(ts):
    "No free / re-bound / vacuous variable, no arity clash inside or across ``ts``."
    for t in ts:
        for _ in syn.wellformed_problems(t):
            return False
    for _ in syn.predicate_conflicts(ts):
        return False
    return True


def features(t):
    "Coverage tags of one sentence."
    tags = set()
    for x in syn.walk(t):
        k = x[0]
        if k == 'A':
            tags.add(('atom-index', x[1]))
            tags.add(('subscript', x[2]))
        elif k == 'O':
            tags.add(('operator', x[1]))
        elif k == 'Q':
            tags.add(('quantifier', x[1]))
            tags.add(('var-index', x[2][1]))
            tags.add(('subscript', x[2][2]))
        else:
            p = x[1]
            if p == syn.IDENTITY:
                tags.add(('predicate', 'Identity'))
            elif p == syn.EXISTENCE:
                tags.add(('predicate', 'Existence'))
            else:
                tags.add(('predicate', f'user/{p[2]}'))
                tags.add(('pred-index', p[0]))
                tags.add(('subscript', p[1]))
            for q in x[2]:
                tags.add(('const-index' if q[0] == 'c' else 'var-index', q[1]))
                tags.add(('subscript', q[2]))
    return tags


def skeleton(t):
    "Mechanism-level shape of a (shrunk) sentence: names kept, coordinates classed."
    def s(n):
        return '0' if n == 0 else ('d' if n < 10 else 'dd+')
    k = t[0]
    if k == 'A':
        return f'A{s(t[2])}'
    if k == 'P':
        p = t[1]
        name = 'Id' if p == syn.IDENTITY else 'Ex' if p == syn.EXISTENCE else f'F{s(p[1])}/{p[2]}'
        return name + '(' + ','.join(q[0] + s(q[2]) for q in t[2]) + ')'
    if k == 'Q':
        return f'{t[1][:2]}.v{s(t[2][2])}[' + skeleton(t[3]) + ']'
    return t[1] + '(' + ','.join(skeleton(x) for x in t[2]) + ')'

# ---------------------------------------------------------------- families


def _trees(leaves, ops):
    "All binary trees over the ordered leaves with every operator assignment."
    if len(leaves) == 1:
        yield leaves[0]
        return
    for i in range(1, len(leaves)):
        for l in _trees(leaves[:i], ops):
            for r in _trees(leaves[i:], ops):
                for o in ops:
                    yield ('O', o, (l, r))


def collision_families():
    """Near-collision families: dict name -> list of pairwise distinct sentences
    whose renderings are 'close' (same symbols, different grouping/subscripts)."""
    fam = {}
    a, b, c = syn.const(0), syn.const(1), syn.const(2)
    x, y = syn.var(0), syn.var(1)
    subs = (0, 1, 2, 10, 11, 12, 21, 101, 110, 111, 112, 211, 1112, 12345)
    # -- subscripts glued to the next symbol
    f = []
    for i in (0, 1, 4):
        for s in subs:
            f.append(('A', i, s))
    for s1 in subs[:11]:
        for s2 in subs[:11]:
            f.append(syn.papp((0, s1, 1), ('c', 0, s2)))
    for s1, s2, s3 in itertools.product((0, 1, 11, 111), repeat=3):
        f.append(syn.papp((0, s1, 2), ('c', 0, s2), ('c', 0, s3)))
        f.append(syn.papp(syn.IDENTITY, ('c', 0, s1), ('c', 1, s2)) if s3 == 0 else
                 syn.neg(syn.papp(syn.IDENTITY, ('c', 0, s1), ('c', 1, s2))) if s3 == 1 else
                 syn.papp(syn.EXISTENCE, ('c', 0, s1 * 1000 + s2)) if s3 == 11 else
                 syn.papp((1, s1, 1), ('c', 3, s2)))
    for s1, s2 in itertools.product((0, 1, 11, 111), repeat=2):
        for q in syn.QUANTIFIERS:
            v = ('v', 0, s1)
            f.append(syn.quant(q, v, syn.papp((0, s2, 1), v)))
            f.append(syn.quant(q, v, syn.papp((0, 0, 2), v, ('c', 0, s2))))
            f.append(syn.quant(q, v, syn.papp(syn.IDENTITY, v, ('c', 0, s2))))
    for s1, s2 in itertools.product((0, 1, 11), repeat=2):
        f.append(syn.op('Conjunction', ('A', 0, s1), ('A', 1, s2)))
        f.append(syn.op('Conjunction', syn.papp((0, s1, 1), ('c', 0, s2)), ('A', 0, 0)))
        f.append(syn.op('Disjunction', ('A', 0, s1), syn.papp(syn.EXISTENCE, ('c', 0, s2))))
    fam['subscripts'] = _dedup(f)
    # -- parenthesisation
    f = []
    leaves = [('A', 0, 0), ('A', 1, 0), ('A', 2, 0), ('A', 0, 0)]
    for n in (1, 2, 3, 4):
        f += list(_trees(leaves[:n], ('Conjunction', 'Disjunction') if n == 4 else
                         ('Conjunction', 'Disjunction', 'MaterialConditional', 'Biconditional')))
    mixed = [('A', 0, 0), syn.papp((0, 0, 1), a), syn.papp(syn.IDENTITY, a, b)]
    f += list(_trees(mixed, ('Conjunction', 'Conditional')))
    f += [syn.neg(t) for t in _trees(leaves[:3], ('Conjunction', 'Disjunction'))]
    f += [syn.op('Conjunction', syn.neg(l), r) for l in leaves[:2] for r in _trees(leaves[1:3], ('Conjunction',))]
    f += [syn.quant('Universal', x, t) for t in _trees(
        [syn.papp((0, 0, 1), x), ('A', 0, 0), syn.papp((1, 0, 1), x)], ('Conjunction', 'Disjunction'))]
    f += [syn.op('Conjunction', syn.quant('Universal', x, syn.papp((0, 0, 1), x)), ('A', 0, 0)),
          syn.quant('Universal', x, syn.op('Conjunction', syn.papp((0, 0, 1), x), ('A', 0, 0)))]
    fam['grouping'] = _dedup(f)
    # -- nested unary operators (incl. the negated-identity special form)
    f = []
    bases = [('A', 0, 0), ('A', 4, 0), syn.papp(syn.IDENTITY, a, b), syn.papp(syn.IDENTITY, a, a),
             syn.papp(syn.EXISTENCE, a), syn.papp((0, 0, 1), a), syn.papp((0, 0, 2), a, b),
             syn.quant('Existential', x, syn.papp(syn.IDENTITY, x, a)),
             syn.op('Conjunction', ('A', 0, 0), ('A', 1, 0)),
             syn.op('Conjunction', syn.papp(syn.IDENTITY, a, b), ('A', 1, 0))]
    for n in range(0, 4):
        for ops in itertools.product(UNARY, repeat=n):
            for base in bases:
                t = base
                for o in reversed(ops):
                    t = ('O', o, (t,))
                f.append(t)
    fam['unary'] = _dedup(f)
    # -- predicates: arities, infix forms, system predicates
    f = []
    ps = [a, b, ('c', 0, 1), x]
    for p in ((0, 0, 1), (0, 0, 2), (0, 0, 3), (0, 1, 2), (1, 0, 2), (3, 11, 3), syn.IDENTITY, syn.EXISTENCE):
        for args in itertools.product(ps, repeat=p[2]):
            t = syn.papp(p, *args)
            if x in args:
                t = syn.quant('Universal', x, t)
            f.append(t)
            f.append(syn.neg(t))
    for q1, q2 in itertools.product(syn.QUANTIFIERS, repeat=2):
        f.append(syn.quant(q1, x, syn.quant(q2, y, syn.papp((0, 0, 2), x, y))))
        f.append(syn.quant(q1, y, syn.quant(q2, x, syn.papp((0, 0, 2), x, y))))
        f.append(syn.quant(q1, x, syn.quant(q2, y, syn.papp(syn.IDENTITY, y, x))))
    fam['predicates'] = _dedup(f)
    return fam


def _dedup(ts):
    seen, out = set(), []
    for t in ts:
        if t not in seen and in_language([t]):
            seen.add(t)
            out.append(t)
    return out


def small_sentences(depth=2, binary=('Conjunction', 'MaterialConditional')):
    """Every sentence up to ``depth`` over a tiny vocabulary: all unary operators,
    the given binary ones, both quantifiers over x."""
    a, b, x = syn.const(0), syn.const(1), syn.var(0)
    F = (0, 0, 1)
    closed = [('A', 0, 0), ('A', 1, 1), syn.papp(F, a), syn.papp(syn.IDENTITY, a, b), syn.papp(syn.EXISTENCE, a)]
    opened = [syn.papp(F, x), syn.papp(syn.IDENTITY, x, a)]
    level = [(t, False) for t in closed] + [(t, True) for t in opened]
    allst = list(level)
    seen = set(t for t, _ in allst)
    for _ in range(depth):
        new = []
        for t, o in level:
            for u in UNARY:
                new.append((('O', u, (t,)), o))
            if o:
                for q in syn.QUANTIFIERS:
                    new.append((('Q', q, x, t), False))
        for (t1, o1) in allst:
            for (t2, o2) in level:
                for bo in binary:
                    # no re-binding can arise: quantified sentences are closed here
                    new.append((('O', bo, (t1, t2)), o1 or o2))
                    if t1 is not t2:
                        new.append((('O', bo, (t2, t1)), o1 or o2))
        level = []
        for t, o in new:
            if t not in seen:
                seen.add(t)
                level.append((t, o))
        allst += level
    return [t for t, o in allst if not o]

# ---------------------------------------------------------------- shrinking


def _variants(t):
    "Smaller or simpler versions of one sentence (may leave the language)."
    k = t[0]
    if k == 'A':
        if t[2]:
            yield ('A', t[1], 0)
            yield ('A', t[1], 1)
        if t[1]:
            yield ('A', 0, t[2])
        return
    if k == 'P':
        p, ps = t[1], t[2]
        yield ('A', 0, 0)
        if p not in (syn.IDENTITY, syn.EXISTENCE):
            if p[1]:
                yield ('P', (p[0], 0, p[2]), ps)
                yield ('P', (p[0], 1, p[2]), ps)
            if p[0]:
                yield ('P', (0, p[1], p[2]), ps)
            if p[2] > 1:
                yield ('P', (p[0], p[1], p[2] - 1), ps[:-1])
                yield ('P', (p[0], p[1], p[2] - 1), ps[1:])
        for i, q in enumerate(ps):
            for q2 in ((q[0], q[1], 0), (q[0], q[1], 1), (q[0], 0, q[2]), ('c', 0, 0)):
                if q2 != q and not (q[2] == 0 and q2[2] == 1):
                    yield ('P', p, ps[:i] + (q2,) + ps[i + 1:])
        return
    if k == 'Q':
        v, body = t[2], t[3]
        yield syn.subst(body, ('c', 0, 0), v)
        for v2 in (('v', v[1], 0), ('v', 0, v[2]), ('v', v[1], 1)):
            if v2 != v and not (v[2] == 0 and v2[2] == 1):
                yield ('Q', t[1], v2, syn.subst(body, v2, v))
        if t[1] != 'Existential':
            yield ('Q', 'Existential', v, body)
        for b2 in _variants(body):
            yield ('Q', t[1], v, b2)
        return
    for x in t[2]:
        yield x
    if len(t[2]) == 1 and t[1] != 'Negation':
        yield ('O', 'Negation', t[2])
    if len(t[2]) == 2 and t[1] != 'Conjunction':
        yield ('O', 'Conjunction', t[2])
    for i, x in enumerate(t[2]):
        for x2 in _variants(x):
            yield ('O', t[1], t[2][:i] + (x2,) + t[2][i + 1:])


def shrink_sentence(t, fails, budget=400):
    """Greedy: the first in-language variant on which ``fails`` still holds
    replaces ``t``; repeat. ``fails(t)`` must be deterministic."""
    n = 0
    progress = True
    while progress and n < budget:
        progress = False
        for t2 in _variants(t):
            if n >= budget:
                break
            if t2 == t or not in_language([t2]):
                continue
            if (syn.size(t2), _weight(t2)) >= (syn.size(t), _weight(t)):
                continue
            n += 1
            if fails(t2):
                t = t2
                progress = True
                break
    return t


def _weight(t):
    "Tie-break for equal sizes: sum of all coordinates + operator ranks."
    k = t[0]
    if k == 'A':
        return t[1] + t[2]
    if k == 'P':
        return sum(abs(n) for n in t[1]) + sum(q[1] + q[2] + (q[0] == 'v') for q in t[2])
    if k == 'Q':
        return (t[1] != 'Existential') + t[2][1] + t[2][2] + _weight(t[3])
    return (t[1] not in ('Negation', 'Conjunction')) + sum(_weight(x) for x in t[2])


def shrink_string(s, fails, budget=300):
    """Greedy reduction while ``fails`` still holds: (1) binary search on the
    length of every long run of one repeated unit (1-4 characters), (2) ddmin-like removal of
    chunks (halves .. single characters)."""
    n = [0]

    def test(c):
        n[0] += 1
        return fails(c)
    # (1) runs of a repeated unit
    for unit in (1, 2, 3, 4):
        i = 0
        while i < len(s) and n[0] < budget:
            u = s[i:i + unit]
            j = i
            while s[j:j + unit] == u and len(u) == unit:
                j += unit
            reps = (j - i) // unit
            if reps >= 8:
                lo, hi = 0, reps            # invariant: hi repetitions fail
                while lo < hi and n[0] < budget:
                    mid = (lo + hi) // 2
                    if test(s[:i] + u * mid + s[j:]):
                        hi = mid
                    else:
                        lo = mid + 1
                s = s[:i] + u * hi + s[j:]
                i += unit * hi
            else:
                i += 1
    # (2) chunks
    chunk = max(1, len(s) // 2)
    while chunk >= 1 and n[0] < budget:
        i = 0
        changed = False
        while i < len(s) and n[0] < budget:
            cand = s[:i] + s[i + chunk:]
            if test(cand):
                s = cand
                changed = True
            else:
                i += chunk
        if chunk == 1:
            if not changed:
                break
        else:
            chunk //= 2
    return s

# ---------------------------------------------------------------- strings


def all_strings(chars, maxlen, minlen=0):
    for n in range(minlen, maxlen + 1):
        for tup in itertools.product(chars, repeat=n):
            yield ''.join(tup)


def nth_strings(chars, length, start, stop):
    "Strings number start..stop-1 (lexicographic over ``chars``) of one length."
    return (''.join(tup) for tup in itertools.islice(itertools.product(chars, repeat=length), start, stop))


def random_string(rng, chars, maxlen, foreign=0.03):
    n = rng.randint(0, maxlen)
    out = []
    for _ in range(n):
        if rng.random() < foreign:
            out.append(rng.choice(FOREIGN))
        else:
            out.append(rng.choice(chars))
    return ''.join(out)


def token_soup(rng, A, maxlen):
    "Random strings biased towards plausible fragments (symbols with subscripts, balanced parens)."
    pools = [list(A.op.values()), list(A.quant.values()), list(A.syspred.values()), list(A.var.values()),
             list(A.const.values()), list(A.pred.values()), list(A.atom.values())]
    out = []
    opened = 0
    while len(out) < maxlen and rng.random() > 0.04:
        x = rng.random()
        if x < 0.70:
            out.append(rng.choice(rng.choice(pools)))
            if rng.random() < 0.2:
                out += [A.digit[rng.randrange(10)] for _ in range(rng.choice((1, 1, 2)))]
        elif x < 0.80 and A.popen:
            out.append(A.popen)
            opened += 1
        elif x < 0.90 and A.pclose:
            out.append(A.pclose)
            opened -= 1
        elif x < 0.97:
            out.append(rng.choice(A.ws))
        else:
            out.append(rng.choice(FOREIGN))
    if A.pclose and opened > 0 and rng.random() < 0.7:
        out += [A.pclose] * opened
    return ''.join(out)[:maxlen]


def mutate(rng, s, chars, k):
    "Apply ``k`` random edits: delete / duplicate / swap / insert foreign or alphabet character / replace."
    s = list(s)
    for _ in range(k):
        kind = rng.randrange(6)
        if not s:
            kind = 3
        i = rng.randrange(len(s)) if s else 0
        if kind == 0:
            del s[i]
        elif kind == 1:
            s.insert(i, s[i])
        elif kind == 2 and len(s) > 1:
            j = rng.randrange(len(s))
            s[i], s[j] = s[j], s[i]
        elif kind == 3:
            s.insert(i, rng.choice(FOREIGN))
        elif kind == 4:
            s.insert(i, rng.choice(chars))
        else:
            s[i] = rng.choice(chars)
    return ''.join(s)

# ---------------------------------------------------------------- flat (non-recursive) form
# Deeply nested sentences (hundreds of levels) cannot be handled by recursive
# functions or even compared as nested tuples (C recursion limit), so C13 uses a
# flat prefix token tuple:  ('A', i, s) | ('P', pred, params) | ('Q', name, var) | ('O', name, n)


def flat_from_lib(s):
    "Read a library sentence (attribute access only, iteratively) into flat prefix tokens."
    out = []
    stack = [s]
    while stack:
        x = stack.pop()
        name = type(x).__name__
        if name == 'Atomic':
            out.append(('A', int(x.index), int(x.subscript)))
        elif name == 'Predicated':
            out.append(('P', syn.pred_from_lib(x.predicate), tuple(syn.param_from_lib(p) for p in x.params)))
        elif name == 'Quantified':
            out.append(('Q', str(x.quantifier.name), syn.param_from_lib(x.variable)))
            stack.append(x.sentence)
        elif name == 'Operated':
            ops = tuple(x.operands)
            out.append(('O', str(x.operator.name), len(ops)))
            stack.extend(reversed(ops))
        else:
            raise TypeError(f'not a sentence: {type(x).__name__}')
    return tuple(out)


def flatten(t):
    "REF-SYN nested tuple -> flat prefix tokens."
    out = []
    stack = [t]
    while stack:
        x = stack.pop()
        k = x[0]
        if k in ('A', 'P'):
            out.append(x)
        elif k == 'Q':
            out.append(('Q', x[1], x[2]))
            stack.append(x[3])
        else:
            out.append(('O', x[1], len(x[2])))
            stack.extend(reversed(x[2]))
    return tuple(out)


def flat_problems(tokens):
    """The clauses of ``syn.wellformed_problems`` over flat tokens, iteratively.
    Returns a list of problem kinds: 'free variable', 're-bound variable',
    'vacuous quantifier', 'arity', 'operator arity', 'truncated'."""
    probs = []
    stack = []          # frames [kind, remaining children, var, used]
    bound = {}
    for tok in tokens:
        if stack:
            stack[-1][1] -= 1
        k = tok[0]
        if k == 'P':
            if len(tok[2]) != tok[1][2]:
                probs.append('arity')
            for p in tok[2]:
                if p[0] != 'v':
                    continue
                if not bound.get(p):
                    probs.append('free variable')
                    continue
                for fr in reversed(stack):
                    if fr[0] == 'Q' and fr[2] == p:
                        fr[3] = True
                        break
        elif k == 'Q':
            v = tok[2]
            if bound.get(v):
                probs.append('re-bound variable')
            bound[v] = bound.get(v, 0) + 1
            stack.append(['Q', 1, v, False])
        elif k == 'O':
            if tok[2] != syn.ARITY.get(tok[1]):
                probs.append('operator arity')
            stack.append(['O', tok[2], None, True])
        while stack and stack[-1][1] <= 0:
            fr = stack.pop()
            if fr[0] == 'Q':
                bound[fr[2]] -= 1
                if not fr[3]:
                    probs.append('vacuous quantifier')
    if stack:
        probs.append('truncated')
    return probs


def show_flat(tokens, limit=200):
    parts = []
    for tok in tokens[:limit]:
        k = tok[0]
        if k in ('A', 'P'):
            parts.append(syn.show(tok))
        elif k == 'Q':
            parts.append(syn._POL_Q[tok[1]] + syn.show(tok[2]))
        else:
            parts.append(syn._POL_OP.get(tok[1], '?'))
    return ''.join(parts) + ('...' if len(tokens) > limit else '')

# ---------------------------------------------------------------- deliberate ill-formedness


def _paths(t, path=(), bound=()):
    "All sub-sentence positions: (path, node, variables bound at that position)."
    yield path, t, bound
    k = t[0]
    if k == 'Q':
        yield from _paths(t[3], path + (3,), bound + (t[2],))
    elif k == 'O':
        for i, x in enumerate(t[2]):
            yield from _paths(x, path + (2, i), bound)


def _replace(t, path, new):
    if not path:
        return new
    k = t[0]
    if k == 'Q':
        return ('Q', t[1], t[2], _replace(t[3], path[1:], new))
    i = path[1]
    return ('O', t[1], t[2][:i] + (_replace(t[2][i], path[2:], new),) + t[2][i + 1:])


def all_vars(t):
    vs = set(syn.variables(t))
    for x in syn.walk(t):
        if x[0] == 'Q':
            vs.add(x[2])
    return vs


def damage(rng, t, arity=None):
    """(tag, t2): ``t`` pushed out of the parsers' language in one targeted way:
    free variable, vacuous quantifier, re-bound variable, or a predication with one
    parameter too few / too many (which clashes with a declared or earlier arity)."""
    used = all_vars(t)
    fresh = next(('v', i, s) for s in range(0, 50) for i in range(N_PARAM) if ('v', i, s) not in used)
    pos = list(_paths(t))
    preds = [(p, n, b) for p, n, b in pos if n[0] == 'P']
    F = None
    for i in range(N_PRED):
        for s in (0, 1, 2, 3):
            if (arity or {}).get((i, s), 1) == 1 and all(q[:2] != (i, s) or q[2] == 1 for q in syn.predicates(t)):
                F = (i, s, 1)
                break
        if F:
            break
    F = F or (0, 777, 1)
    kind = rng.choice(('free', 'free', 'vacuous', 'vacuous', 'vacuous-reused', 'vacuous-reused', 'rebound', 'rebound',
                       'arity-less', 'arity-more'))
    if kind == 'vacuous-reused':
        # a vacuous quantifier whose variable IS used, but under another quantifier in a disjoint scope
        # (before or after it in reading order)
        v = fresh if rng.random() < 0.5 or not used else rng.choice(sorted(used))
        if v in syn.free_vars(t) or any(x[0] == 'Q' and x[2] == v for x in syn.walk(t)):
            v = fresh
        good = ('Q', rng.choice(syn.QUANTIFIERS), v, ('P', F, (v,)))
        bad = ('Q', rng.choice(syn.QUANTIFIERS), v, t)
        pair = (good, bad) if rng.random() < 0.7 else (bad, good)
        return 'vacuous', ('O', rng.choice(('Conjunction', 'Disjunction', 'MaterialConditional', 'Conditional')), pair)
    if kind == 'free':
        if preds and rng.random() < 0.8:
            p, n, b = rng.choice(preds)
            i = rng.randrange(len(n[2]))
            v = fresh if rng.random() < 0.5 or not used - set(b) else rng.choice(sorted(used - set(b)))
            return kind, _replace(t, p, ('P', n[1], n[2][:i] + (v,) + n[2][i + 1:]))
        p, n, b = rng.choice(pos)
        return kind, _replace(t, p, ('O', 'Conjunction', (n, ('P', F, (fresh,)))))
    if kind == 'vacuous':
        p, n, b = rng.choice(pos)
        return kind, _replace(t, p, ('Q', rng.choice(syn.QUANTIFIERS), fresh, n))
    if kind == 'rebound':
        qs = [(p, n, b) for p, n, b in pos if b]
        if not qs:
            inner = ('Q', 'Existential', fresh, ('P', F, (fresh,)))
            return kind, ('O', 'Conjunction', (t, ('Q', 'Universal', fresh,
                                                   ('O', 'Disjunction', (('P', F, (fresh,)), inner)))))
        p, n, b = rng.choice(qs)
        v = rng.choice(b)
        return kind, _replace(t, p, ('Q', rng.choice(syn.QUANTIFIERS), v, ('O', 'Conjunction', (n, ('P', F, (v,))))))
    if not preds:
        return 'free', ('O', 'Conjunction', (t, ('P', F, (fresh,))))
    p, n, b = rng.choice(preds)
    if kind == 'arity-less':
        return kind, _replace(t, p, ('P', n[1], n[2][:-1]))
    return kind, _replace(t, p, ('P', n[1], n[2] + (('c', rng.randrange(N_PARAM), 0),)))
