"""The shared proof workload: (label, argument) cases per logic."""
from __future__ import annotations

import random

from . import gen
from .ref import sem as rsem


def named_examples():
    "The library's ~110 named example arguments as REF-SYN tuples."
    from pytableaux import examples
    from .ref import syn
    out = []
    for title, arg in sorted(examples.arguments.items()):
        try:
            out.append((f'example:{title}', (tuple(syn.from_lib(p) for p in arg.premises), syn.from_lib(arg.conclusion))))
        except Exception:
            continue
    return out


def cases(name, desig, rng, n_random=60, n_rule_rounds=1, with_examples=True, depth=3):
    """Yield (label, fragment, argument). Deterministic for a given rng."""
    S = rsem.sem(name)
    frags = gen.fragments_for(S)
    for label, arg in gen.hostile(rng, S):
        yield 'hostile:' + label, 'hostile', arg
    if with_examples:
        for label, arg in named_examples():
            yield label, 'example', arg
    for rnd in range(n_rule_rounds):
        for fr in frags:
            for label, arg in gen.rule_directed(rng, S, desig, fr, depth=1):
                yield f'{label}:{fr}', fr, arg
    # random arguments: natively interpreted fragments, plus some with opaque parts
    allfr = list(gen.FRAGMENTS)
    for i in range(n_random):
        fr = rng.choice(frags * 3 + allfr)
        g = gen.SentGen(rng, fr, natoms=3, nconsts=rng.choice([1, 2, 2, 3]))
        arg = g.argument(max_prem=3, depth=rng.choice([1, 2, 2, depth]))
        yield f'random:{fr}', fr, arg


def config_cycle(i, seed=0, orders=(0, 1, 2, 3)):
    "The i-th configuration of the rotating sweep: (cfg dict, driver, order)."
    from . import runs
    g, k = runs.COMBOS[(i + seed) % 4]
    driver = 'step' if ((i + seed) // 4) % 2 else 'build'
    order = orders[((i + seed) // 8) % len(orders)]
    return dict(group_optim=g, rank_optim=k), driver, order
