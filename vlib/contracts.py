"""icontract conditions installed on the real classes from the harness.

Rules followed (see DESIGN 3.4): named condition functions whose parameter
names match the target, explicit ``error=``; every condition counts its
evaluations; in *record* mode a failing condition records a problem and
returns True so the observed execution is not disturbed.
"""
from __future__ import annotations

import icontract

from .ref import syn

COUNTS = {}
PROBLEMS = []
MODE = {'raise': False}
_installed = set()


class FreshnessBroken(AssertionError):
    pass


def _count(name):
    COUNTS[name] = COUNTS.get(name, 0) + 1


def _fail(name, detail):
    PROBLEMS.append((name, detail))
    return not MODE['raise']


def branch_constants(branch):
    out = set()
    for node in branch:
        s = node.get('sentence')
        if s is not None:
            out |= syn.constants(syn.from_lib(s))
    return out


def branch_worlds(branch):
    out = set()
    for node in branch:
        for k in ('world', 'world1', 'world2'):
            w = node.get(k)
            if w is not None:
                out.add(int(w))
    return out


def _fresh(branch, where):
    ok = True
    c = syn.param_from_lib(branch.new_constant())
    if c in branch_constants(branch):
        ok = _fail('K1:new_constant-occurs-on-branch', dict(where=where, constant=syn.show(c))) and ok
    w = branch.new_world()
    if w in branch_worlds(branch):
        ok = _fail('K2:new_world-occurs-on-branch', dict(where=where, world=w)) and ok
    return ok


# ---- conditions (parameter names match the targets)

def k1_new_constant_is_fresh(self, result):
    _count('K1')
    c = syn.param_from_lib(result)
    if c in branch_constants(self):
        return _fail('K1:new_constant-occurs-on-branch', dict(where='new_constant', constant=syn.show(c)))
    return True


def k2_new_world_is_fresh(self, result):
    _count('K2')
    if result in branch_worlds(self):
        return _fail('K2:new_world-occurs-on-branch', dict(where='new_world', world=result))
    return True


def k3_fresh_after_append(self):
    _count('K3-append')
    return _fresh(self, 'after append')


def k3_fresh_after_copy(self, result):
    _count('K3-copy')
    return _fresh(self, 'original after copy') and _fresh(result, 'copy')


def install_branch_contracts():
    from pytableaux.proof import Branch
    if 'branch' in _installed:
        return
    _installed.add('branch')
    Branch.new_constant = icontract.ensure(k1_new_constant_is_fresh, error=FreshnessBroken)(Branch.new_constant)
    Branch.new_world = icontract.ensure(k2_new_world_is_fresh, error=FreshnessBroken)(Branch.new_world)
    Branch.append = icontract.ensure(k3_fresh_after_append, error=FreshnessBroken)(Branch.append)
    Branch.copy = icontract.ensure(k3_fresh_after_copy, error=FreshnessBroken)(Branch.copy)


def reset():
    PROBLEMS.clear()
