"""Helpers on the library side (imports pytableaux from VERIF_REPO)."""
from __future__ import annotations

import os
import sys

_REPO = os.environ.get('VERIF_REPO', '/repo')
if _REPO not in sys.path:
    sys.path.insert(0, _REPO)

_cache = {}


def registry():
    if 'reg' not in _cache:
        from pytableaux.logics import registry as reg
        reg.import_all()
        _cache['reg'] = reg
    return _cache['reg']


def logic_names():
    reg = registry()
    return sorted(reg(n).Meta.name for n in reg)


def logic(name):
    return registry()(name)


def hooks_active():
    try:
        from pytableaux import _verif
        return bool(_verif.ACTIVE)
    except Exception:
        return False


def set_order(k):
    """Re-seed the Node/Branch tie-break permutation (between tableaux)."""
    try:
        from pytableaux import _verif
        if _verif.ACTIVE:
            _verif.set_order(k)
            return True
    except Exception:
        pass
    return False


def operator(name):
    from pytableaux.lang import Operator
    return Operator[name]


STATIC_LOGICS = (
    'B3E CFOL CPL D FDE G3 GO K K3 K3W K3WQ KB3E KFDE KG3 KK3 KK3W KK3WQ KL3 KLP KRM3 L3 LP MH NH P3 RM3 '
    'S4 S4B3E S4FDE S4G3 S4GO S4K3 S4K3W S4K3WQ S4L3 S4LP S4RM3 S5 S5B3E S5FDE S5G3 S5K3 S5K3W S5K3WQ '
    'S5L3 S5LP S5RM3 T TB3E TFDE TG3 TK3 TK3W TK3WQ TL3 TLP TRM3').split()
"""Logic names known when the checks were written; used by ``units()`` in the
driver process (which does not import the library). Workers compare with the
live registry and report new or missing logics."""
