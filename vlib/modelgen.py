"""Building library models through the public model API from a reference-side
description ("facts"), for C08 and C20."""
from __future__ import annotations

from .ref import syn
from . import lib

A_, B_, C_ = syn.atom(0), syn.atom(1), syn.atom(2)
CONSTS = [syn.const(0), syn.const(1), syn.const(2)]
F1, G1, H2 = syn.pred(0, 0, 1), syn.pred(1, 0, 1), syn.pred(2, 0, 2)
x, y = syn.var(0), syn.var(1)


def random_facts(rng, S, nworlds=None, nconsts=None, identity=None):
    """A list of API calls: ('atom', atom, value, world) | ('pred', pred, params, value, world) |
    ('opaque', sentence, value, world) | ('literal', sentence, value, world) | ('access', w1, w2)."""
    V = S.values
    if nworlds is None:
        nworlds = rng.randint(1, 3) if rng.random() < 0.75 else rng.randint(4, 6)      # "random larger"
    worlds = list(range(nworlds)) if S.modal else [0]
    consts = CONSTS[:rng.randint(0, 3) if nconsts is None else nconsts]
    facts = []
    for w in worlds:
        for a in (A_, B_, C_):
            if rng.random() < 0.7:
                if rng.random() < 0.15:
                    facts.append(('literal', syn.neg(a), rng.choice(V), w))
                else:
                    facts.append(('atom', a, rng.choice(V), w))
        use_id = (rng.random() < 0.5) if identity is None else identity
        # classical family: facts must be consistent with an identity partition of the constants
        rep = {c: c for c in consts}
        if S.classical and use_id and len(consts) >= 2:
            for c in consts[1:]:
                if rng.random() < 0.5:
                    rep[c] = rep[rng.choice(consts[:consts.index(c)])]
        classval = {}
        for p in (F1, G1, H2):
            tuples = [()]
            for _ in range(p[2]):
                tuples = [t + (c,) for t in tuples for c in consts]
            for t in tuples:
                if rng.random() < 0.6:
                    if S.classical:
                        key = (p, tuple(rep[c] for c in t))
                        v = classval.setdefault(key, rng.choice(V))
                    else:
                        v = rng.choice(V)
                    facts.append(('pred', p, t, v, w))
        if use_id and len(consts) >= 2:
            for _ in range(rng.randint(1, 3)):
                c1, c2 = rng.choice(consts), rng.choice(consts)
                if S.classical:
                    if rep[c1] != rep[c2] or c1 == c2:
                        continue
                    v = 'T'
                else:
                    v = rng.choice(V)
                if not any(f[0] == 'pred' and f[1] == syn.IDENTITY and f[2] == (c1, c2) and f[4] == w for f in facts):
                    facts.append(('pred', syn.IDENTITY, (c1, c2), v, w))
            if S.classical:
                # make the stated identities generate the chosen partition (a chain through each class)
                classes = {}
                for c in consts:
                    classes.setdefault(rep[c], []).append(c)
                for cls in classes.values():
                    for c1, c2 in zip(cls, cls[1:]):
                        pair = (c1, c2) if rng.random() < 0.5 else (c2, c1)
                        if not any(f[0] == 'pred' and f[1] == syn.IDENTITY and set(f[2]) == {c1, c2} and f[4] == w for f in facts):
                            facts.append(('pred', syn.IDENTITY, pair, 'T', w))
        if consts and rng.random() < 0.3 and not S.classical:
            facts.append(('pred', syn.EXISTENCE, (rng.choice(consts),), rng.choice(V), w))
        # opaque sentences (only where the logic does not interpret them)
        if not S.quantified and rng.random() < 0.5:
            facts.append(('opaque', syn.quant('Existential', x, syn.papp(F1, x)), rng.choice(V), w))
        if not S.modal and rng.random() < 0.5:
            facts.append(('opaque', syn.op('Possibility', A_), rng.choice(V), w))
    if S.modal:
        if len(worlds) <= 3:
            for w1 in worlds:
                for w2 in worlds:
                    if rng.random() < 0.35:
                        facts.append(('access', w1, w2))
        else:
            # sparse relations: a path through a random order of the worlds plus a few extra pairs,
            # emitted in path order, reversed or shuffled (the closure must not depend on it)
            order = list(worlds)
            rng.shuffle(order)
            if rng.random() < 0.5:
                order = sorted(order, reverse=rng.random() < 0.3)
            pairs = [(a_, b_) for a_, b_ in zip(order, order[1:]) if rng.random() < 0.9]
            pairs += [(rng.choice(worlds), rng.choice(worlds)) for _ in range(rng.randint(0, 3))]
            style = rng.random()
            if style < 0.3:
                pairs.reverse()
            elif style < 0.6:
                rng.shuffle(pairs)
            seen = set()
            for pr in pairs:
                if pr not in seen:
                    seen.add(pr)
                    facts.append(('access',) + pr)
    return facts, worlds, consts


def apply_fact(model, f):
    kw = lambda w: dict(world=w)
    if f[0] == 'atom':
        model.set_atomic_value(syn.to_lib(f[1]), f[2], **kw(f[3]))
    elif f[0] == 'pred':
        model.set_predicated_value(syn.to_lib(('P', f[1], f[2])), f[3], **kw(f[4]))
    elif f[0] == 'opaque':
        model.set_opaque_value(syn.to_lib(f[1]), f[2], **kw(f[3]))
    elif f[0] == 'literal':
        model.set_literal_value(syn.to_lib(f[1]), f[2], **kw(f[3]))
    elif f[0] == 'access':
        model.R.add((f[1], f[2]))
    else:
        raise ValueError(f)


def build(name, facts, finish=True):
    m = lib.logic(name).Model()
    for f in facts:
        apply_fact(m, f)
    if finish:
        m.finish()
    return m


def show_fact(f):
    if f[0] == 'atom':
        return f'{syn.show(f[1])}={f[2]}@{f[3]}'
    if f[0] == 'pred':
        return f'{syn.show(("P", f[1], f[2]))}={f[3]}@{f[4]}'
    if f[0] in ('opaque', 'literal'):
        return f'{f[0]}:{syn.show(f[1])}={f[2]}@{f[3]}'
    return f'{f[1]}R{f[2]}'


def facts_to_json(facts):
    def tj(t):
        return [tj(v) if isinstance(v, tuple) else v for v in t]
    return [tj(f) for f in facts]


def facts_from_json(js):
    def fj(t):
        return tuple(fj(v) if isinstance(v, list) else v for v in t)
    return [fj(f) for f in js]


def test_sentences(rng, S, consts, n, depth=3):
    "Sentences over the model's own constants."
    from . import gen
    frag = {(False, False): 'prop', (True, False): 'modal', (False, True): 'fo', (True, True): 'fomodal'}[(True, True)]
    out = []
    for i in range(n):
        g = gen.SentGen(rng, rng.choice(['prop', 'modal', 'fo', 'fomodal', 'fomodal']), natoms=3,
                        nconsts=max(1, len(consts)), identity=0.2)
        g.consts = list(consts) or []
        for _ in range(20):
            s = g.sentence(rng.randint(1, depth)) if (consts or True) else None
            if all(c in consts for c in syn.constants(s)):
                out.append(s)
                break
    return out
