"""Monitors over finished tableaux shared by C01, C02, C09 (and reused by C10/C11)."""
from __future__ import annotations

from . import gen, runs, shadow, tabs
from .ref import search, sem as rsem, syn

CAP = dict(quick=300, thorough=600)
SEARCH = dict(
    quick=dict(max_worlds=2, extra_consts=1, limit=3000, sample=600),
    thorough=dict(max_worlds=3, extra_consts=2, limit=20000, sample=4000))


DEEP_WORLDS = 3
DEEP_BUDGET = 2000000


def cfg_json(cfg, driver, order):
    return dict(cfg=cfg, driver=driver, order=order)


def env_for(order):
    return {'PYTABLEAUX_VERIF_ORDER': str(order)}


# ------------------------------------------------------------------ C01

def monitor_valid(name, S, arg, r, cfg, driver, order, out, tier, rng, label=''):
    """r: a finished Run with outcome VALID. Refute by REF-SEARCH."""
    res = search.find_countermodel(S, arg[0], arg[1], rng=rng, **SEARCH[tier])
    out.count('valid_verdicts_checked')
    out.count('oracle_complete' if res.complete else 'oracle_sampled')
    out.count('interpretations_explored', res.explored)
    if res.model is None and S.modal and SEARCH[tier]['max_worlds'] < DEEP_WORLDS and \
            out.counters.get('deep_interpretations', 0) < DEEP_BUDGET:
        # escalate to frames of exactly three worlds (sibling worlds with contradicting obligations need three), within a
        # per-unit budget of interpretations so that the quick tier stays quick
        deep = search.find_countermodel(S, arg[0], arg[1], rng=rng, **dict(SEARCH[tier], max_worlds=DEEP_WORLDS,
                                                                           min_worlds=DEEP_WORLDS, sample=40))
        if deep.explored:
            out.count('deep_searches_three_worlds')
            out.count('deep_interpretations', deep.explored)
            out.count('interpretations_explored', deep.explored)
        if deep.model is not None:
            res = deep
    if res.model is None:
        return None
    cm = res.model
    c = shadow.culprit_of_valid(name, arg, cm, dict(cfg, max_steps=CAP[tier], order=order))
    diag = dict(clause='valid-but-countermodel', family=S.base_name, classical=S.classical,
                culprit_rule=(c or {}).get('rule'), culprit_kind=(c or {}).get('kind'))
    if S.base_name == 'FDE':
        SL = rsem.sem_linear(name)
        I2 = rsem.Interp(SL, worlds=cm.worlds, R=cm.R, domain=cm.domain, atoms=cm.atoms, preds=cm.preds, opaques=cm.opaques)
        diag['countermodel_under_linear_order_too'] = I2.is_countermodel(arg[0], arg[1])
    case = dict(logic=name, argument=gen.arg_to_json(arg), label=label, **cfg_json(cfg, driver, order),
                countermodel=cm.describe(), culprit=c)
    return dict(kind='unsound-valid', case=case, diagnosis=diag,
                message=f'{name}: {gen.show_arg(arg)} reported VALID but {cm.describe()} designates the premises and not the conclusion; '
                        f'culprit={c}', size=gen.arg_size(arg), env=env_for(order))


# ------------------------------------------------------------------ C02

def monitor_invalid(name, S, arg, r, cfg, driver, order, out, tier, label=''):
    """r: finished Run (models=True) with outcome INVALID. Returns list of violations."""
    tab = r.tab
    larg = runs.lib_argument(arg)
    vs = []
    case0 = dict(logic=name, argument=gen.arg_to_json(arg), label=label, **cfg_json(cfg, driver, order))

    def viol(kind, diag, msg, **extra):
        vs.append(dict(kind=kind, case=dict(case0, **extra), diagnosis=dict(diag, family=S.base_name),
                       message=f'{name}: {gen.show_arg(arg)}: {msg}', size=gen.arg_size(arg), env=env_for(order)))

    for bi, b in enumerate(tab.open):
        if runs.has_quit_flag(b):
            out.count('branches_skipped_quit_flag')
            continue
        out.count('open_branches_checked')
        m = b.model
        if m is None:
            viol('no-model', dict(clause='open-branch-without-model'), f'open branch {bi} has no model')
            continue
        I = runs.export_model(m, S)
        nodes_checked = sum(1 for n in b if n.get('sentence') is not None)
        out.count('branch_nodes_evaluated', nodes_checked)
        d = shadow.diagnose_branch_model(tab, b, S, I)
        if d is not None:
            dd = {k: v for k, v in d.items() if k in ('clause', 'diag', 'node_kind', 'rules', 'frame')}
            viol('model-fails-node', dd, f'model of open branch {bi} fails node {d.get("node")} ({d.get("diag")})',
                 branch=[tabs.show_spec(tabs.node_spec(n)) for n in b][:40], model=I.describe(), detail=d)
            continue
        if S.classical:
            out.count('classical_identity_checks')
            probs = classical_identity_problems(I)
            if probs:
                analysis = identity_branch_analysis(b)
                viol('model-violates-classical-identity',
                     dict(clause='model-violates-classical-identity', problems='+'.join(probs), branch_analysis=analysis),
                     f'model of open branch {bi} is not a classical model ({probs}); branch analysis: {analysis}',
                     branch=[tabs.show_spec(tabs.node_spec(n)) for n in b][:40], model=I.describe())
                continue
        if not S.frame_ok(I.R, I.worlds):
            viol('frame-condition', dict(clause='model-violates-frame-condition', frame=S.frame),
                 f'model access {sorted((x, y) for x in I.R for y in I.R[x])} violates {S.frame}', model=I.describe())
            continue
        ref_cm = I.is_countermodel(arg[0], arg[1])
        if not ref_cm:
            viol('not-a-countermodel', dict(clause='model-satisfies-branch-but-is-no-countermodel'),
                 'model satisfies every node of the branch but is not a countermodel (trunk does not encode the argument?)',
                 model=I.describe())
            continue
        try:
            lib_cm = bool(m.is_countermodel_to(larg))
            err = None
        except Exception as e:
            lib_cm, err = None, type(e).__name__
        out.count('library_countermodel_tests')
        if lib_cm is not True:
            diag = dict(clause='library-countermodel-test-disagrees', error=err)
            if S.base_name == 'FDE':
                SL = rsem.sem_linear(name)
                I2 = rsem.Interp(SL, worlds=I.worlds, R=I.R, domain=I.domain, atoms=I.atoms, preds=I.preds, opaques=I.opaques)
                diag['explained_by_linear_order'] = (I2.is_countermodel(arg[0], arg[1]) is False)
            viol('library-test-disagrees', diag,
                 f'model is a countermodel by REF-SEM but is_countermodel_to() says {lib_cm} ({err})', model=I.describe())
    return vs


def classical_identity_problems(I):
    "Which classical constraints on identity/existence the exported model data violates."
    probs = set()
    dom = I.domain
    for w in I.worlds:
        idv = lambda c1, c2: I.preds.get((w, syn.IDENTITY, (c1, c2)), 'F') == 'T'
        for c1 in dom:
            if not idv(c1, c1):
                probs.add('not-reflexive')
            if I.preds.get((w, syn.EXISTENCE, (c1,)), 'F') != 'T':
                probs.add('existence-not-universal')
            for c2 in dom:
                if idv(c1, c2) and not idv(c2, c1):
                    probs.add('not-symmetric')
                for c3 in dom:
                    if idv(c1, c2) and idv(c2, c3) and not idv(c1, c3):
                        probs.add('not-transitive')
        for (ww, p, ps), v in I.preds.items():
            if ww != w or v != 'T' or p == syn.IDENTITY:
                continue
            for i, c1 in enumerate(ps):
                for c2 in dom:
                    if c2 != c1 and idv(c1, c2) and I.preds.get((w, p, ps[:i] + (c2,) + ps[i + 1:]), 'F') != 'T':
                        probs.add('extension-not-closed-under-identity')
    return sorted(probs)


def identity_branch_analysis(branch):
    """Why can an open branch have no classical model? Literal predications per world:
    'closes-under-library-rule'   the library's own identity rule (replace every occurrence of one side by the other in a
                                  positive predication) derives a contradiction that is not on the branch: rule not applied;
    'closes-under-congruence-only' only symmetric / position-wise substitution closes it: the rule is incomplete;
    'satisfiable'                 the literals have a classical model: only the model builder is at fault."""
    lits = {}
    for n in branch:
        sp = tabs.node_spec(n)
        if sp[0] != 'S':
            continue
        s, w = sp[1], sp[3]
        neg = False
        if s[0] == 'O' and s[1] == 'Negation':
            neg, s = True, s[2][0]
        if s[0] == 'P':
            lits.setdefault(w, set()).add((neg, s[1], s[2]))
    verdicts = []
    for w, ls in lits.items():
        pos = {(p, ps) for neg, p, ps in ls if not neg}
        negs = {(p, ps) for neg, p, ps in ls if neg}
        # (1) the library rule, to a fixpoint
        cur = set(pos)
        for _ in range(12):
            new = set()
            for p, ps in cur:
                if p != syn.IDENTITY or ps[0] == ps[1]:
                    continue
                pa, pb = ps
                for q, qs in cur:
                    if (q, qs) == (p, ps):
                        continue
                    if pa in qs:
                        rs = tuple(pb if x == pa else x for x in qs)
                    elif pb in qs:
                        rs = tuple(pa if x == pb else x for x in qs)
                    else:
                        continue
                    new.add((q, rs))
            if new <= cur:
                break
            cur |= new
        lib_closed = any(x in negs for x in cur) or any(p == syn.IDENTITY and ps[0] == ps[1] for p, ps in negs)
        # (2) congruence closure
        rep = {}

        def find(x):
            while rep.get(x, x) != x:
                x = rep[x]
            return x
        for p, ps in pos:
            if p == syn.IDENTITY:
                rep[find(ps[0])] = find(ps[1])
        norm = lambda ps: tuple(find(x) for x in ps)
        posn = {(p, norm(ps)) for p, ps in pos}
        cong_closed = any((p, norm(ps)) in posn for p, ps in negs if p != syn.IDENTITY) \
            or any(find(ps[0]) == find(ps[1]) for p, ps in negs if p == syn.IDENTITY)
        verdicts.append('closes-under-library-rule' if lib_closed else 'closes-under-congruence-only' if cong_closed else 'satisfiable')
    for v in ('closes-under-library-rule', 'closes-under-congruence-only'):
        if v in verdicts:
            return v
    return 'satisfiable'


# ------------------------------------------------------------------ shared

def run_cfg(name, arg, cfg, driver, order, tier, models=False, tap=None, after_step=None):
    return runs.run(name, arg, driver=driver, order=order, max_steps=CAP[tier], models=models,
                    tap=tap, after_step=after_step, **cfg)


def error_violation(name, S, arg, r, cfg, driver, order, label=''):
    return dict(kind='build-raised',
                case=dict(logic=name, argument=gen.arg_to_json(arg), label=label, **cfg_json(cfg, driver, order), error=r.error),
                diagnosis=dict(clause='configuration-raises', error=r.error['type'], site=r.error['site'],
                               group_optim=cfg['group_optim'], rank_optim=cfg['rank_optim']),
                message=f'{name}: {gen.show_arg(arg)} with {cfg} {driver} raised {r.error}',
                size=gen.arg_size(arg), env=env_for(order))


def emit(out, v):
    out.violation(v['kind'], v['case'], v['diagnosis'], v['message'], size=v.get('size', 0), env=v.get('env'))


def nontrivial(r, arg):
    return r.steps >= 2 and arg[1] not in arg[0]
