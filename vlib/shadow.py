"""Diagnosis engines shared by C01/C02/C03/C09/C11.

* ``culprit_of_valid(logic, arg, model, cfg)``: the *shadow-model invariant*.
  ``model`` is a reference countermodel of the argument; it satisfies the
  trunk; a sound step preserves "some open branch is satisfied by the model
  under some assignment of the branch's new worlds/constants to the model's
  worlds/elements". Re-runs the configuration step by step and returns the
  first step at which the invariant breaks: the culprit rule.
* ``diagnose_branch_model(tab, branch, S)``: for an open branch whose
  read-off model fails a node: what kind of node, which rule handled it, and
  whether the branch is unsaturated.
"""
from __future__ import annotations

from . import runs, tabs
from .ref import syn


def _sat_node(I, spec, wmap, cmap):
    s, d, w = spec[1], spec[2], spec[3]
    for old, new in cmap.items():
        s = syn.subst(s, new, old)
    w = 0 if w is None else wmap.get(w, w)
    if w not in I.worlds and w != 0:
        return False
    return (I.value(s, w) in I.sem.designated) == (True if d is None else d)


def _extend(I, specs, wmap, cmap):
    """All extensions of (wmap, cmap) to the new worlds / constants of
    ``specs`` under which every spec is satisfied. Generator of (wmap, cmap)."""
    new_w, new_c = [], []
    for sp in specs:
        if sp[0] == 'S':
            if sp[3] is not None and sp[3] not in wmap and sp[3] not in new_w:
                new_w.append(sp[3])
            for c in sorted(syn.constants(sp[1])):
                if c not in cmap and c not in new_c and c not in I.domain:
                    new_c.append(c)
        elif sp[0] == 'R':
            for w in (sp[1], sp[2]):
                if w not in wmap and w not in new_w:
                    new_w.append(w)

    def rec_w(i, wm):
        if i == len(new_w):
            yield wm
            return
        for u in I.worlds:
            wm2 = dict(wm)
            wm2[new_w[i]] = u
            yield from rec_w(i + 1, wm2)

    def rec_c(i, cm):
        if i == len(new_c):
            yield cm
            return
        for e in I.domain:
            cm2 = dict(cm)
            cm2[new_c[i]] = e
            yield from rec_c(i + 1, cm2)

    for wm in rec_w(0, dict(wmap)):
        ok = True
        for sp in specs:
            if sp[0] == 'R':
                a, b = wm.get(sp[1], sp[1]), wm.get(sp[2], sp[2])
                if b not in I.R.get(a, ()):
                    ok = False
                    break
        if not ok:
            continue
        for cm in rec_c(0, dict(cmap)):
            if all(_sat_node(I, sp, wm, cm) for sp in specs if sp[0] == 'S'):
                yield wm, cm


def culprit_of_valid(logic, arg, I, cfg, max_assign=200):
    """Returns dict(rule=..., step=..., node=..., kind=...) or None when the
    invariant never breaks (then the countermodel and the proof disagree in a
    way this engine cannot localise)."""
    state = {}          # id(branch) -> list of (wmap, cmap)
    seen_len = {}       # id(branch) -> number of nodes already accounted for
    result = {}

    def account(tab):
        for b in tab:
            bid = id(b)
            n0 = seen_len.get(bid)
            if n0 is None:
                par = b.parent
                if par is not None and id(par) in state:
                    # a copy: starts from what the parent had *when copied*; conservatively
                    # recompute from scratch over all nodes
                    base = [({0: 0}, {})]
                    n0 = 0
                else:
                    base = [({0: 0}, {})]
                    n0 = 0
                state[bid] = base
            specs = [tabs.node_spec(n) for n in list(b)[n0:]]
            specs = [sp for sp in specs if sp[0] in ('S', 'R')]
            if specs:
                new = []
                for wm, cm in state[bid]:
                    for ext in _extend(I, specs, wm, cm):
                        new.append(ext)
                        if len(new) >= max_assign:
                            break
                    if len(new) >= max_assign:
                        break
                state[bid] = new
            seen_len[bid] = len(b)

    def after_step(tab, entry):
        if result:
            return
        account(tab)
        alive = [b for b in tab.open if state.get(id(b))]
        closed_sat = [b for b in tab if b.closed and state.get(id(b))]
        if closed_sat and entry is not None:
            result.update(kind='closed-a-satisfied-branch', rule=entry.rule.name, step=len(tab.history),
                          node=tabs.entry_info(entry).get('node'))
        elif not alive and entry is not None:
            result.update(kind='lost-the-model', rule=entry.rule.name, step=len(tab.history),
                          node=tabs.entry_info(entry).get('node'),
                          target={k: v for k, v in tabs.entry_info(entry).items() if k != 'node'})

    def tap(tab):
        from pytableaux.proof import Tableau
        def after_trunk(t):
            account(t)
            if not any(state.get(id(b)) for b in t):
                result.update(kind='trunk-not-satisfied', rule='build_trunk', step=0)
        tab.on(Tableau.Events.AFTER_TRUNK_BUILD, after_trunk)

    r = runs.run(logic, arg, driver='step', tap=tap, after_step=after_step, **cfg)
    if result:
        return result
    return None


def node_kind(S, spec):
    s = spec[1]
    neg = False
    if s[0] == 'O' and s[1] == 'Negation':
        inner = s[2][0]
        if inner[0] in ('A', 'P') or S.is_opaque(inner):
            return 'literal'
        neg = True
        s = inner
    if S.is_opaque(s):
        return 'literal'
    if s[0] in ('A', 'P'):
        return 'literal'
    name = s[1]
    if s[0] == 'O' and s[1] == 'Negation':
        name = 'DoubleNegation'
        neg = False
    return f"{name}{'Negated' if neg else ''}{ {True: 'Designated', False: 'Undesignated', None: ''}[spec[2]] }"


def diagnose_branch_model(tab, branch, S, I, lib_model=None):
    """First node of ``branch`` that interpretation ``I`` (the exported
    read-off model) fails, classified."""
    specs = [(n, tabs.node_spec(n)) for n in branch]
    access = {(sp[1], sp[2]) for _, sp in specs if sp[0] == 'R'}
    consts = set()
    for _, sp in specs:
        if sp[0] == 'S':
            consts |= syn.constants(sp[1])
    present = {}
    for _, sp in specs:
        if sp[0] == 'S':
            present.setdefault(sp[3], set()).add(sp[1])
    failing = []
    for node, sp in specs:
        if sp[0] == 'R':
            if sp[2] not in I.R.get(sp[1], ()):
                return dict(clause='access-pair-missing-from-model', pair=[sp[1], sp[2]])
            continue
        if sp[0] != 'S':
            continue
        w = 0 if sp[3] is None else sp[3]
        ok = (I.value(sp[1], w) in S.designated) == (True if sp[2] is None else sp[2])
        if not ok:
            failing.append((node, sp))
    if not failing:
        return None
    # prefer the deepest cause: a failing node none of whose own expansion products fail
    failing.sort(key=lambda ns: syn.size(ns[1][1]))
    node, sp = failing[0]
    kind = node_kind(S, sp)
    d = dict(clause='node-unsatisfied', node_kind=kind, family=S.base_name, frame=S.frame,
             rules=sorted(set(runs.step_rule_for_node(tab, node))), ticked=bool(branch.is_ticked(node)))
    s = sp[1]
    core = s[2][0] if (s[0] == 'O' and s[1] == 'Negation' and s[2][0][0] != 'A') else s
    w = sp[3]
    if core[0] == 'O' and core[1] in syn.MODAL and S.modal:
        succ = sorted(b for a, b in access if a == w)
        inner = core[2][0]
        missing = [u for u in succ
                   if not any(x in (inner, syn.neg(inner)) for x in present.get(u, ()))]
        if not succ:
            d['diag'] = 'world-without-successor' if S.frame == 'serial' else 'modal-node-no-successor'
        elif missing:
            d['diag'] = 'unsaturated-modal-universal'
            d['uninstantiated_worlds'] = len(missing)
        else:
            d['diag'] = 'modal-node-instances-present'
    elif core[0] == 'Q' and S.quantified:
        v, body = core[2], core[3]
        missing = []
        for c in sorted(consts):
            inst = syn.subst(body, c, v)
            if not any(_mentions(x, inst) for x in present.get(w, ())):
                missing.append(c)
        d['diag'] = 'unsaturated-quantifier-universal' if missing else 'quantifier-instances-present'
        d['uninstantiated_constants'] = len(missing)
    elif kind == 'literal':
        d['diag'] = 'literal-misread'
    else:
        d['diag'] = 'operator-node-unsatisfied-though-components-read'
    d['node'] = tabs.show_spec(sp)
    return d


def _mentions(x, inst):
    "Is ``inst`` (or its negation) a sub-sentence of x?"
    for sub in syn.walk(x):
        if sub == inst:
            return True
    return False


def shrink_argument(arg, fails, budget=120):
    """Greedy shrinking while ``fails(arg)`` stays true (fails returns a
    diagnosis key or None; the key must stay the same)."""
    key = fails(arg)
    if key is None:
        return arg
    steps = 0
    improved = True
    while improved and steps < budget:
        improved = False
        prem, conc = arg
        cands = []
        for i in range(len(prem)):
            cands.append((prem[:i] + prem[i + 1:], conc))
        sents = list(prem) + [conc]
        for i, s in enumerate(sents):
            for rep in _smaller(s):
                new = list(sents)
                new[i] = rep
                cands.append((tuple(new[:-1]), new[-1]))
        for cand in cands:
            steps += 1
            if steps > budget:
                break
            try:
                k = fails(cand)
            except Exception:
                k = None
            if k == key:
                arg = cand
                improved = True
                break
    return arg


def _smaller(t):
    "Candidate replacements of sentence t by something smaller (closed)."
    if t[0] == 'O':
        for x in t[2]:
            if not syn.free_vars(x):
                yield x
        for i, x in enumerate(t[2]):
            for r in _smaller(x):
                yield ('O', t[1], t[2][:i] + (r,) + t[2][i + 1:])
    elif t[0] == 'Q':
        for r in _smaller_open(t[3], t[2]):
            yield ('Q', t[1], t[2], r)
    elif t[0] == 'P' and t[1] not in (syn.IDENTITY, syn.EXISTENCE):
        pass


def _smaller_open(t, v):
    "Smaller bodies that still contain variable v free."
    if t[0] == 'O':
        for x in t[2]:
            if v in syn.free_vars(x):
                yield x
        for i, x in enumerate(t[2]):
            for r in _smaller_open(x, v):
                yield ('O', t[1], t[2][:i] + (r,) + t[2][i + 1:])
    elif t[0] == 'Q':
        if v in syn.free_vars(t[3]):
            for r in _smaller_open(t[3], v):
                if t[2] in syn.free_vars(r):
                    yield ('Q', t[1], t[2], r)
