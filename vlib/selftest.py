"""./check selftest [--only <id-substring>] [--tier quick]

Self-validation of the monitors (DESIGN section 6):

1. algebraic self-test of REF-SEM;
2. every seeded change under seeded/<id>/patch.diff and every entry of mutants/mutants.json is applied to a scratch
   git worktree of /repo created under $TMPDIR (outside /repo and /verif, removed immediately afterwards) and the
   check(s) named in its meta are run against it with VERIF_REPO; a run that does not end in VIOLATION is a MISS.

Exit 0 iff every expected detection happened. Nothing is written to /repo.
"""
from __future__ import annotations

import json
import os
import shutil
import subprocess
import sys
import tempfile
import time

ROOT = os.path.dirname(os.path.dirname(os.path.abspath(__file__)))
REPO = '/repo'


def sh(cmd, **kw):
    return subprocess.run(cmd, capture_output=True, text=True, **kw)


def make_worktree():
    base = tempfile.mkdtemp(prefix='verif-selftest-', dir=os.environ.get('TMPDIR') or '/tmp')
    wt = os.path.join(base, 'wt')
    p = sh(['git', '-C', REPO, 'worktree', 'add', '--detach', wt, 'HEAD'])
    if p.returncode:
        raise RuntimeError(p.stderr)
    return base, wt


def drop_worktree(base, wt):
    sh(['git', '-C', REPO, 'worktree', 'remove', '--force', wt])
    shutil.rmtree(base, ignore_errors=True)
    sh(['git', '-C', REPO, 'worktree', 'prune'])


def run_check(prop, wt, tier, only=None):
    env = dict(os.environ, VERIF_REPO=wt)
    cmd = [os.path.join(ROOT, 'check'), prop, '--tier', tier]
    if only:
        cmd += ['--only', only]
    t0 = time.time()
    p = sh(cmd, env=env, cwd=ROOT)
    lines = [l for l in p.stdout.splitlines() if l.startswith(('VIOLATION', 'HELD', 'INCONCLUSIVE', '  kind='))]
    return p.returncode, lines, time.time() - t0


def collect(only):
    items = []
    sdir = os.path.join(ROOT, 'seeded')
    if os.path.isdir(sdir):
        for name in sorted(os.listdir(sdir)):
            meta_p = os.path.join(sdir, name, 'meta.json')
            if not os.path.exists(meta_p):
                continue
            meta = json.load(open(meta_p))
            items.append(dict(id=f'seeded/{name}', kind='patch', patch=os.path.join(sdir, name, 'patch.diff'),
                              checks=meta.get('caught_by') or [meta['property']], expect_miss=meta.get('expected_miss', []),
                              only=meta.get('only')))
    mpath = os.path.join(ROOT, 'mutants', 'mutants.json')
    if os.path.exists(mpath):
        for m in json.load(open(mpath))['mutants']:
            items.append(dict(id=f"mutant/{m['id']}", kind='replace', file=m['file'], old=m['old'], new=m['new'],
                              checks=m['checks'], only=m.get('only')))
    # every repaired defect, re-introduced by reverse-applying its fix commit
    kf = os.path.join(ROOT, 'known_findings.json')
    if os.path.exists(kf):
        import re
        for line in json.load(open(kf)).get('fixed', []):
            m = re.match(r'fixed: property=(C\d+) ([0-9a-f]{7,}) ', line)
            if m:
                also = re.findall(r'\[revert-with ([0-9a-f]{7,})', line)
                items.append(dict(id=f'revert/{m.group(2)}', kind='revert', commit=m.group(2), also=also, checks=[m.group(1)]))
    if only:
        items = [i for i in items if only in i['id']]
    return items


def apply(item, wt):
    if item['kind'] == 'patch':
        p = sh(['git', '-C', wt, 'apply', item['patch']])
        if p.returncode:
            raise RuntimeError(f"patch does not apply: {p.stderr[:300]}")
    elif item['kind'] == 'revert':
        for commit in list(item.get('also') or []) + [item['commit']]:
            d = sh(['git', '-C', wt, 'show', commit])
            p = subprocess.run(['git', '-C', wt, 'apply', '-R'], input=d.stdout, capture_output=True, text=True)
            if p.returncode:
                raise RuntimeError(f"fix commit {commit} does not reverse-apply: {p.stderr[:300]}")
    else:
        path = os.path.join(wt, item['file'])
        s = open(path).read()
        if s.count(item['old']) != 1:
            raise RuntimeError(f"mutant anchor occurs {s.count(item['old'])} times in {item['file']}")
        open(path, 'w').write(s.replace(item['old'], item['new']))


def main(args):
    sys.path.insert(0, ROOT)
    from vlib.ref import sem
    probs = sem.selftest()
    print(f'REF-SEM algebraic self-test: {"ok" if not probs else probs}')
    failed = bool(probs)
    items = collect(args.only)
    results = []
    for item in items:
        base, wt = make_worktree()
        try:
            try:
                apply(item, wt)
            except RuntimeError as e:
                print(f'SKIP {item["id"]}: {e}')
                results.append(dict(id=item['id'], status='skip', reason=str(e)))
                failed = True
                continue
            for prop in item['checks']:
                rc, lines, wall = run_check(prop, wt, args.tier, item.get('only'))
                caught = rc == 1 and any(l.startswith('VIOLATION') for l in lines)
                status = 'CAUGHT' if caught else 'MISS'
                if not caught:
                    failed = True
                first = next((l.strip() for l in lines if l.startswith('  kind=')), '')
                print(f'{status} {item["id"]} by {prop} ({wall:.0f}s) {first[:160]}')
                results.append(dict(id=item['id'], check=prop, status=status, wall=round(wall, 1), first=first[:300]))
        finally:
            drop_worktree(base, wt)
    os.makedirs(os.path.join(ROOT, '.work'), exist_ok=True)
    with open(os.path.join(ROOT, '.work', 'selftest.json'), 'w') as f:
        json.dump(results, f, indent=1)
    print(f'selftest: {sum(1 for r in results if r["status"] == "CAUGHT")} caught, '
          f'{sum(1 for r in results if r["status"] == "MISS")} missed, {sum(1 for r in results if r["status"] == "skip")} skipped')
    return 1 if failed else 0
