"""REF-SYN: independent syntax model.

A sentence is a plain nested tuple:

  ('A', index, subscript)
  ('P', (index, subscript, arity), (param, ...))   param = ('c'|'v', index, subscript)
  ('Q', 'Existential'|'Universal', ('v', i, s), body)
  ('O', operator-name, (operand, ...))

``from_lib`` reads a library sentence through plain attribute access only
(never ``==``, ``hash``, ``substitute``, writers or parsers of the library).
``to_lib`` builds a library sentence through the public constructors.
"""
from __future__ import annotations

IDENTITY = (-1, 0, 2)
EXISTENCE = (-2, 0, 1)

OPERATORS = (
    ('Assertion', 1), ('Negation', 1), ('Conjunction', 2), ('Disjunction', 2),
    ('MaterialConditional', 2), ('MaterialBiconditional', 2), ('Conditional', 2),
    ('Biconditional', 2), ('Possibility', 1), ('Necessity', 1))
ARITY = dict(OPERATORS)
TRUTH_FUNCTIONAL = tuple(n for n, _ in OPERATORS[:8])
MODAL = ('Possibility', 'Necessity')
QUANTIFIERS = ('Existential', 'Universal')

# ---------------------------------------------------------------- reading


def param_from_lib(p):
    name = type(p).__name__
    if name == 'Constant':
        return ('c', int(p.index), int(p.subscript))
    if name == 'Variable':
        return ('v', int(p.index), int(p.subscript))
    raise TypeError(f'not a parameter: {p!r}')


def pred_from_lib(p):
    return (int(p.index), int(p.subscript), int(p.arity))


def from_lib(s):
    name = type(s).__name__
    if name == 'Atomic':
        return ('A', int(s.index), int(s.subscript))
    if name == 'Predicated':
        return ('P', pred_from_lib(s.predicate), tuple(param_from_lib(p) for p in s.params))
    if name == 'Quantified':
        return ('Q', str(s.quantifier.name), param_from_lib(s.variable), from_lib(s.sentence))
    if name == 'Operated':
        return ('O', str(s.operator.name), tuple(from_lib(x) for x in s.operands))
    raise TypeError(f'not a sentence: {s!r}')


def any_from_lib(x):
    "Any of the nine lexical types to a tuple."
    name = type(x).__name__
    if name in ('Constant', 'Variable'):
        return param_from_lib(x)
    if name == 'Predicate':
        return ('pred',) + pred_from_lib(x)
    if name == 'Operator':
        return ('oper', str(x.name))
    if name == 'Quantifier':
        return ('quant', str(x.name))
    return from_lib(x)

# ---------------------------------------------------------------- building


def to_lib(t):
    from pytableaux.lang import (Atomic, Constant, Operated, Operator,
                                 Predicate, Predicated, Quantified,
                                 Quantifier, Variable)
    k = t[0]
    if k == 'A':
        return Atomic(t[1], t[2])
    if k == 'c':
        return Constant(t[1], t[2])
    if k == 'v':
        return Variable(t[1], t[2])
    if k == 'P':
        return Predicated(pred_to_lib(t[1]), tuple(to_lib(p) for p in t[2]))
    if k == 'Q':
        return Quantified(Quantifier[t[1]], to_lib(t[2]), to_lib(t[3]))
    if k == 'O':
        return Operated(Operator[t[1]], tuple(to_lib(x) for x in t[2]))
    if k == 'pred':
        return pred_to_lib(t[1:])
    if k == 'oper':
        return Operator[t[1]]
    if k == 'quant':
        return Quantifier[t[1]]
    raise TypeError(t)


def pred_to_lib(p):
    from pytableaux.lang import Predicate
    p = tuple(p)
    if p == IDENTITY:
        return Predicate.Identity
    if p == EXISTENCE:
        return Predicate.Existence
    return Predicate(p)

# ---------------------------------------------------------------- analysis


def subst(t, new, old):
    "Replace every occurrence of parameter ``old`` by ``new``."
    k = t[0]
    if k == 'A':
        return t
    if k == 'P':
        return ('P', t[1], tuple(new if p == old else p for p in t[2]))
    if k == 'Q':
        return ('Q', t[1], t[2], subst(t[3], new, old))
    if k == 'O':
        return ('O', t[1], tuple(subst(x, new, old) for x in t[2]))
    raise TypeError(t)


def walk(t):
    "Prefix-order walk over sub-sentences."
    yield t
    k = t[0]
    if k == 'Q':
        yield from walk(t[3])
    elif k == 'O':
        for x in t[2]:
            yield from walk(x)


def params(t):
    "All parameter occurrences in prefix order (not the binding occurrences)."
    for x in walk(t):
        if x[0] == 'P':
            yield from x[2]


def constants(t):
    return frozenset(p for p in params(t) if p[0] == 'c')


def variables(t):
    "Variables occurring as predicate parameters (as the library defines it)."
    return frozenset(p for p in params(t) if p[0] == 'v')


def predicates(t):
    return frozenset(x[1] for x in walk(t) if x[0] == 'P')


def atomics(t):
    return frozenset(x for x in walk(t) if x[0] == 'A')


def operators(t):
    return tuple(x[1] for x in walk(t) if x[0] == 'O')


def quantifiers(t):
    return tuple(x[1] for x in walk(t) if x[0] == 'Q')


def size(t):
    return sum(1 for _ in walk(t))


def depth(t):
    k = t[0]
    if k == 'Q':
        return 1 + depth(t[3])
    if k == 'O':
        return 1 + max(depth(x) for x in t[2])
    return 0


def free_vars(t, bound=frozenset()):
    k = t[0]
    if k == 'A':
        return frozenset()
    if k == 'P':
        return frozenset(p for p in t[2] if p[0] == 'v' and p not in bound)
    if k == 'Q':
        return free_vars(t[3], bound | {t[2]})
    return frozenset().union(*(free_vars(x, bound) for x in t[2]))


def wellformed_problems(t, bound=frozenset()):
    """Problems with respect to the parsers' language: free variables,
    re-bound variables, vacuous quantifiers, arity mismatches."""
    k = t[0]
    if k == 'A':
        return
    if k == 'P':
        if len(t[2]) != t[1][2]:
            yield f'arity {t[1]} applied to {len(t[2])} params'
        for p in t[2]:
            if p[0] == 'v' and p not in bound:
                yield f'free variable {p}'
        return
    if k == 'Q':
        if t[2] in bound:
            yield f're-bound variable {t[2]}'
        if t[2] not in free_vars(t[3]):
            yield f'vacuous quantifier over {t[2]}'
        yield from wellformed_problems(t[3], bound | {t[2]})
        return
    if len(t[2]) != ARITY[t[1]]:
        yield f'operator {t[1]} with {len(t[2])} operands'
    for x in t[2]:
        yield from wellformed_problems(x, bound)


def predicate_conflicts(ts):
    "Pairs of predicates sharing (index, subscript) with different arity."
    seen = {}
    for t in ts:
        for p in predicates(t):
            q = seen.setdefault(p[:2], p)
            if q != p:
                yield (q, p)

# ---------------------------------------------------------------- helpers

def neg(t): return ('O', 'Negation', (t,))
def op(name, *xs): return ('O', name, tuple(xs))
def atom(i, s=0): return ('A', i, s)
def const(i, s=0): return ('c', i, s)
def var(i, s=0): return ('v', i, s)
def pred(i, s=0, arity=1): return (i, s, arity)
def papp(p, *ps): return ('P', tuple(p), tuple(ps))
def quant(q, v, body): return ('Q', q, v, body)

def negative(t):
    if t[0] == 'O' and t[1] == 'Negation':
        return t[2][0]
    return neg(t)

# Polish ascii rendering by the reference (used for readable witnesses only)
_POL_OP = dict(Assertion='T', Negation='N', Conjunction='K', Disjunction='A',
               MaterialConditional='C', MaterialBiconditional='E',
               Conditional='U', Biconditional='B', Possibility='M', Necessity='L')
_POL_Q = dict(Existential='S', Universal='V')

def _sub(n): return str(n) if n else ''

def show(t):
    k = t[0]
    if k == 'A':
        return 'abcde'[t[1]] + _sub(t[2])
    if k == 'c':
        return 'mnos'[t[1]] + _sub(t[2])
    if k == 'v':
        return 'xyzv'[t[1]] + _sub(t[2])
    if k == 'P':
        p = t[1]
        if p == IDENTITY: sym = 'I'
        elif p == EXISTENCE: sym = 'J'
        else: sym = 'FGHO'[p[0]] + _sub(p[1])
        return sym + ''.join(show(x) for x in t[2])
    if k == 'Q':
        return _POL_Q[t[1]] + show(t[2]) + show(t[3])
    if k == 'O':
        return _POL_OP[t[1]] + ''.join(show(x) for x in t[2])
    return repr(t)
