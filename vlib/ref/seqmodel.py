"""REF-SEQ - reference model for ordered-set containers (property C18).

The model of a container is a plain Python ``list`` without duplicates over a
small universe of ints (the check maps them to real elements).  For every
operation instance ``spec_for`` computes the *permitted outcomes* from the model
state alone - it never looks at the library:

``expect``
    ``'must'``   the operation has a single well-defined result and has to succeed,
    ``'raise'``  the operation is expected to raise (duplicate, missing value, bad index,
                 arity conflict); a silent outcome is accepted only if it is one of ``ok``
                 (a well-defined lenient reading such as "no-op"),
    ``'either'`` definedness is ambiguous: "raises and unchanged" and "the list-model
                 result, provided it is duplicate free" are both accepted.
``ok``
    accepted post-states when the operation returns normally.
``raise_states``
    accepted post-states when the operation raises.  Always contains the pre-state; for
    *bulk* operations additionally the states reachable by applying a prefix of the
    elements one by one (only duplicate-free ones).
``ret``
    what the returned value must look like (``('value', v)``, ``('set', frozenset)``,
    ``('copy',)``, ``('self',)`` or ``None``).

Operations are JSON-able lists ``[name, arg, ...]``; slices are ``[start, stop, step]``.
An optional ``conflict(a, b)`` relation models the predicate store's "same symbol,
different arity" exclusion: a state holding a conflicting pair is as invalid as one
holding a duplicate.
"""
from __future__ import annotations

UNIVERSE = (0, 1, 2, 3)

MUTATORS = frozenset((
    'append', 'add', 'insert', 'wedge', 'remove', 'discard', 'pop', 'delitem', 'delslice', 'setitem', 'setslice',
    'clear', 'reverse', 'sort', 'extend', 'iadd', 'update', 'ior', 'iand', 'isub', 'ixor',
    'ior_self', 'iand_self', 'isub_self', 'ixor_self', 'extend_self'))
BINARY = frozenset(('or', 'and', 'sub', 'xor', 'plus'))
BULK = frozenset(('extend', 'iadd', 'update', 'ior', 'iand', 'isub', 'ixor', 'setslice', 'delslice',
                  'ior_self', 'iand_self', 'isub_self', 'ixor_self', 'extend_self'))
INPLACE = frozenset(('iadd', 'ior', 'iand', 'isub', 'ixor', 'ior_self', 'iand_self', 'isub_self', 'ixor_self'))

SLICES = ((None, None, None), (0, 1, None), (1, None, None), (None, -1, None), (0, 0, None),
          (None, None, 2), (None, None, -1), (1, 3, None))


class Spec:
    __slots__ = ('expect', 'ok', 'raise_states', 'situation', 'ret')

    def __init__(self, expect, ok, raise_states, situation, ret=None):
        self.expect = expect
        self.ok = ok
        self.raise_states = raise_states
        self.situation = situation
        self.ret = ret

    def __repr__(self):
        return f'Spec({self.expect}, ok={self.ok}, raise_states={self.raise_states}, {self.situation}, ret={self.ret})'


def make_valid(conflict=None):
    def valid(s):
        if len(set(s)) != len(s):
            return False
        if conflict is None:
            return True
        for i, x in enumerate(s):
            for y in s[i + 1:]:
                if conflict(x, y):
                    return False
        return True
    return valid


def _uniq(states):
    res = []
    for s in states:
        if s not in res:
            res.append(s)
    return res


def spec_for(m, op, conflict=None, sortkey=None, _raw=False):
    """Permitted outcomes of ``op`` on model state ``m`` (a duplicate-free list)."""
    valid = make_valid(conflict)
    name = op[0]
    a = op[1:]
    n = len(m)
    m = list(m)

    def must(r, sit, ret=None):
        return Spec('must', [r], [m], sit, ret)

    def exp_raise(sit, ok=()):
        return Spec('raise', [list(s) for s in ok], [m], sit)

    def either(r, sit, prefixes=()):
        ok = [r] if r is not None and valid(r) else []
        return Spec('either' if ok else 'raise', ok, _uniq([m] + [p for p in prefixes if valid(p)]), sit)

    def conflicts_with(v, others):
        return conflict is not None and any(conflict(v, u) for u in others)

    if name in ('append', 'add', 'insert'):
        v = a[-1]
        if v in m:
            # duplicate: append/insert raise, add is a no-op; a silent no-op keeps the model intact
            return exp_raise('member', ok=[m])
        r = list(m)
        if name == 'insert':
            r.insert(a[0], v)
        else:
            r.append(v)
        if not valid(r):
            return exp_raise('arity-conflict')
        return must(r, 'fresh')

    if name == 'wedge':
        v, nb, rel = a
        if rel not in (-1, 1):
            return exp_raise('bad-rel', ok=[m])
        if nb not in m:
            return exp_raise('neighbor-missing', ok=[m])
        if v in m:
            return exp_raise('member', ok=[m])
        r = list(m)
        i = r.index(nb)
        r.insert(i if rel == -1 else i + 1, v)
        if not valid(r):
            return exp_raise('arity-conflict')
        return must(r, 'fresh')

    if name == 'remove':
        v = a[0]
        if v in m:
            return must([x for x in m if x != v], 'member')
        return exp_raise('non-member', ok=[m])

    if name == 'discard':
        v = a[0]
        return must([x for x in m if x != v], 'member' if v in m else 'non-member')

    if name in ('pop', 'delitem'):
        i = a[0]
        if i is None:
            i = -1
        if -n <= i < n:
            r = list(m)
            v = r.pop(i)
            return must(r, 'valid-index', ('value', v) if name == 'pop' else None)
        return exp_raise('bad-index')

    if name == 'delslice':
        r = list(m)
        del r[slice(*a[0])]
        return must(r, 'extended' if a[0][2] not in (None, 1) else 'plain')

    if name == 'setitem':
        i, v = a
        if not -n <= i < n:
            return exp_raise('bad-index')
        old = m[i]
        r = list(m)
        r[i] = v
        if v == old:
            return either(r, 'same-value')
        if v in m:
            return either(r, 'present-elsewhere')
        if not valid(r):
            return either(r, 'arity-conflict')
        if conflicts_with(v, [old]):
            return either(r, 'arity-conflict-with-leaving')
        return must(r, 'fresh')

    if name == 'setslice':
        sl, vals = slice(*a[0]), list(a[1])
        rng = range(*sl.indices(n))
        try:
            r = list(m)
            r[sl] = vals
        except ValueError:
            r = None
        leaving = [m[j] for j in rng]
        staying = [x for j, x in enumerate(m) if j not in rng]
        prefixes = []
        if len(rng) == len(vals):
            p = list(m)
            for j, v in zip(rng, vals):
                p = list(p)
                p[j] = v
                prefixes.append(p)
        if r is None:
            return either(None, 'extended-size-mismatch')
        if len(set(vals)) != len(vals):
            return either(r, 'repeated-values', prefixes)
        if any(v in staying for v in vals):
            return either(r, 'value-present-elsewhere', prefixes)
        if len(rng) != len(vals):
            return either(r, 'size-mismatch')
        if not valid(r):
            return either(r, 'arity-conflict', prefixes)
        if any(conflicts_with(v, leaving) for v in vals):
            return either(r, 'arity-conflict-with-leaving', prefixes)
        if not rng:
            return either(r, 'zero-length')
        if sl.step not in (None, 1):
            sit = 'clean-extended'
        elif set(vals) & set(leaving):
            sit = 'clean-permutes-leaving'
        else:
            sit = 'clean'
        return Spec('must', [r], _uniq([m] + [p for p in prefixes if valid(p)]), sit)

    if name == 'clear':
        return must([], 'any')
    if name == 'reverse':
        return must(m[::-1], 'any')
    if name == 'sort':
        return must(sorted(m, key=sortkey, reverse=bool(a and a[0])), 'reverse' if a and a[0] else 'plain')
    if name == 'copy':
        return must(m, 'any', ('copy',))

    if name == 'ixor' and not _raw and len(set(a[0])) != len(a[0]):
        # repeated operand values: "toggle element by element" and "operand read as a set" differ; accept both
        s1 = spec_for(m, [name, list(a[0])], conflict, sortkey, _raw=True)
        s2 = spec_for(m, [name, list(dict.fromkeys(a[0]))], conflict, sortkey)
        return Spec('either' if s1.ok or s2.ok else 'raise', _uniq(s1.ok + s2.ok), _uniq(s1.raise_states + s2.raise_states),
                    'repeated-operand-values', s2.ret)

    if name in ('extend', 'iadd', 'update', 'ior', 'ixor'):
        vals = list(a[0])
        ret = ('self',) if name in INPLACE else None
        chain = [list(m)]
        s = list(m)
        broke = None
        for v in vals:
            if v in s:
                if name in ('extend', 'iadd'):
                    broke = 'contains-member'
                    break
                if name == 'ixor':
                    s = [x for x in s if x != v]
                    chain.append(s)
                continue
            if conflicts_with(v, s):
                broke = 'arity-conflict'
                break
            s = s + [v]
            chain.append(s)
        if broke is None:
            if name not in ('extend', 'iadd') and not valid(list(dict.fromkeys(vals))):
                # the operand itself is not a storable collection (conflicting pair): not a "valid operand"
                return Spec('either', [s], _uniq(chain), 'invalid-operand', ret)
            return Spec('must', [s], _uniq(chain), 'all-applicable', ret)
        ok = []
        if name in ('extend', 'iadd'):
            # lenient silent reading: members are skipped (set-style)
            t = list(m)
            for v in vals:
                if v not in t:
                    t = t + [v]
            if valid(t):
                ok = [t]
        elif name == 'ixor':
            # order-independent reading of the symmetric difference
            t = [x for x in m if x not in vals] + [v for v in dict.fromkeys(vals) if v not in m]
            if valid(t):
                ok = [t]
        return Spec('either' if ok and name == 'ixor' else 'raise', ok, _uniq(chain), broke, ret)

    if name in ('iand', 'isub'):
        vals = list(a[0])
        if name == 'iand':
            r = [x for x in m if x in vals]
        else:
            r = [x for x in m if x not in vals]
        if not valid(list(dict.fromkeys(vals))):
            return Spec('either', [r], [m], 'invalid-operand', ('self',))
        return Spec('must', [r], [m], 'any', ('self',))

    if name in ('ior_self', 'iand_self'):
        return Spec('must', [m], [m], 'self-operand', ('self',))
    if name in ('isub_self', 'ixor_self'):
        return Spec('must', [[]], [m], 'self-operand', ('self',))
    if name == 'extend_self':
        if not m:
            return must(m, 'self-operand-empty')
        return exp_raise('self-operand', ok=[m])

    if name in BINARY:
        vals = list(a[0])
        sm, sv = set(m), set(vals)
        if name in ('or', 'plus'):
            want = sm | sv
        elif name == 'and':
            want = sm & sv
        elif name == 'sub':
            want = sm - sv
        else:
            want = sm ^ sv
        if valid(sorted(want)):
            return Spec('must', [m], [m], 'valid-result', ('set', frozenset(want)))
        return Spec('raise', [], [m], 'arity-conflict-in-result')

    raise ValueError(f'unknown operation {op!r}')


# ------------------------------------------------------------------ workloads

SETSLICE_SLICES = ((0, 1, None), (0, 2, None), (1, None, None), (0, 0, None), (None, None, 2), (None, None, -1))
SETSLICE_VALS = ([], [0], [3], [1, 1], [0, 1], [1, 0], [2, 3], [3, 2, 1], [1, 3], [3, 1])
BULK_VALS = ([], [1], [1, 3], [3, 3], [0, 1], [2, 0])
OPERANDS = ([], [1], [0, 2], [3, 1])


def all_ops(wedge=False, sort=True):
    """Every operation kind with all relevant small arguments (state independent)."""
    U = UNIVERSE
    ops = []
    ops += [['append', v] for v in U]
    ops += [['add', v] for v in U]
    ops += [['insert', i, v] for i in (0, 1, -1, 9) for v in U]
    if wedge:
        ops += [['wedge', v, nb, rel] for v in U for nb in U if v != nb for rel in (-1, 1)]
        ops += [['wedge', 0, 0, 1], ['wedge', 3, 2, 0]]
    ops += [['remove', v] for v in U]
    ops += [['discard', v] for v in U]
    ops += [['pop', i] for i in (None, 0, 1, 5)]
    ops += [['delitem', i] for i in (0, 1, -1, 4, -5)]
    ops += [['delslice', list(s)] for s in SLICES]
    ops += [['setitem', i, v] for i in (0, 1, -1, 4) for v in U]
    ops += [['setslice', list(s), list(vs)] for s in SETSLICE_SLICES for vs in SETSLICE_VALS]
    ops += [['clear'], ['reverse'], ['copy']]
    if sort:
        ops += [['sort', False], ['sort', True]]
    ops += [['extend', list(vs)] for vs in BULK_VALS]
    ops += [['iadd', list(vs)] for vs in BULK_VALS[:4]]
    ops += [['update', list(vs)] for vs in BULK_VALS]
    ops += [['ior', list(vs)] for vs in BULK_VALS]
    ops += [['iand', list(vs)] for vs in ([], [0, 1], [2], [0, 1, 2, 3])]
    ops += [['isub', list(vs)] for vs in ([], [0, 1], [2], [0, 1, 2, 3])]
    ops += [['ixor', list(vs)] for vs in ([], [0], [0, 1], [1, 0], [2, 3])]
    ops += [['ior_self'], ['iand_self'], ['isub_self'], ['ixor_self'], ['extend_self']]
    ops += [[b, list(vs)] for b in ('or', 'and', 'sub', 'xor', 'plus') for vs in OPERANDS]
    return ops


def compact_ops(wedge=False, sort=True):
    """Every operation kind with one to four representative arguments (for deeper unpruned enumeration)."""
    ops = [['append', 0], ['append', 3], ['add', 0], ['add', 1],
           ['insert', 0, 1], ['insert', -1, 2], ['insert', 9, 1]]
    if wedge:
        ops += [['wedge', 1, 0, -1], ['wedge', 3, 2, 1], ['wedge', 0, 2, 1], ['wedge', 1, 3, -1]]
    ops += [['remove', 0], ['remove', 2], ['discard', 0], ['discard', 3], ['pop', None], ['pop', 0],
            ['delitem', 0], ['delitem', -1], ['delitem', 4],
            ['delslice', [1, None, None]], ['delslice', [None, None, 2]], ['delslice', [0, 1, None]],
            ['setitem', 0, 1], ['setitem', 0, 3], ['setitem', -1, 1], ['setitem', -1, 2]]
    ops += [['setslice', list(s), list(vs)] for s in ((0, 2, None), (1, None, None), (None, None, -1))
            for vs in ([3], [1, 1], [1, 0], [2, 3])]
    ops += [['clear'], ['reverse'], ['copy']]
    if sort:
        ops += [['sort', False], ['sort', True]]
    ops += [['extend', [1, 3]], ['extend', [0, 1]], ['iadd', [1]], ['update', [1, 3]], ['update', [2, 0]],
            ['ior', [0, 1]], ['ior', [3]], ['iand', [0, 1]], ['iand', [2, 3]], ['isub', [0, 1]], ['isub', [2]],
            ['ixor', [0, 1]], ['ixor', [2, 3]],
            ['ior_self'], ['iand_self'], ['isub_self'], ['ixor_self'], ['extend_self']]
    ops += [[b, [0, 2]] for b in ('or', 'and', 'sub', 'xor', 'plus')]
    ops += [[b, [3, 1]] for b in ('or', 'xor')]
    return ops


def op_kinds(wedge=False, sort=True):
    seen = []
    for op in all_ops(wedge, sort):
        if op[0] not in seen:
            seen.append(op[0])
    return seen


PROFILES = {
    # weights per kind; kinds missing from the dict get weight 1
    'all': {},
    'core': {'setitem': 0, 'setslice': 0, 'append': 2, 'add': 2, 'insert': 3, 'wedge': 3, 'remove': 2,
             'discard': 2, 'delitem': 2, 'delslice': 2, 'pop': 2},
    'assign': {'setitem': 4, 'setslice': 4, 'append': 2, 'insert': 2},
}


def random_op(rng, m, kinds, weights, operand_ok=None):
    """One random operation instance, with arguments biased towards the current state."""
    U = UNIVERSE
    n = len(m)
    name = rng.choices(kinds, weights)[0]

    def val():
        return rng.choice(U)

    def idx():
        return rng.randint(-n - 2, n + 1)

    def vals(maxlen=3):
        return [val() for _ in range(rng.randint(0, maxlen))]

    def distinct_vals():
        k = rng.randint(0, 4)
        return rng.sample(U, k)

    def rslice():
        def bound():
            return None if rng.random() < 0.3 else rng.randint(-n - 1, n + 1)
        step = rng.choice((None, None, None, None, 1, 2, -1, -2, 3))
        return [bound(), bound(), step]

    if name in ('append', 'add', 'remove', 'discard'):
        return [name, val()]
    if name == 'insert':
        return [name, idx(), val()]
    if name == 'wedge':
        nb = rng.choice(m) if m and rng.random() < 0.85 else val()
        return [name, val(), nb, rng.choice((-1, 1, -1, 1, -1, 1, 0))]
    if name == 'pop':
        return [name, None if rng.random() < 0.4 else idx()]
    if name == 'delitem':
        return [name, idx()]
    if name == 'delslice':
        return [name, rslice()]
    if name == 'setitem':
        return [name, idx(), val()]
    if name == 'setslice':
        sl = rslice()
        k = len(range(*slice(*sl).indices(n)))
        if rng.random() < 0.7:
            vs = [val() for _ in range(k)] if rng.random() < 0.5 else rng.sample(U, min(k, 4))
        else:
            vs = vals()
        return [name, sl, vs]
    if name == 'sort':
        return [name, rng.random() < 0.5]
    if name in ('clear', 'reverse', 'copy', 'ior_self', 'iand_self', 'isub_self', 'ixor_self', 'extend_self'):
        return [name]
    if name in ('extend', 'iadd'):
        return [name, vals() if rng.random() < 0.5 else [v for v in distinct_vals() if v not in m or rng.random() < 0.2]]
    if name in ('update', 'ior', 'iand', 'isub', 'ixor'):
        return [name, vals(4) if rng.random() < 0.3 else distinct_vals()]
    if name in BINARY:
        for _ in range(20):
            vs = distinct_vals()
            if operand_ok is None or operand_ok(vs):
                return [name, vs]
        return [name, []]
    raise ValueError(name)
