"""REF-SEM: independent reference semantics of the ~57 logics.

Transcribed from the literature and the *prose* of doc/logics/*.rst (see
DESIGN.md 3.7), written without importing anything from pytableaux. Truth
values are the strings 'F', 'N', 'B', 'T'.

A logic is described by ``Sem``: value set, designated set, the eight
truth-functional operators, the generalised disjunction/conjunction used by
quantifiers (``some``/``every``) and by modal operators (``poss``/``nec``),
the frame class and whether the classical treatment of identity/existence
applies.
"""
from __future__ import annotations

from functools import lru_cache
from itertools import product

from . import syn

# ------------------------------------------------------------------ orders

CHAIN = dict(F=0, N=1, B=1, T=2)            # for 3-valued chains F < N|B < T


def _kmin(a, b): return a if CHAIN[a] <= CHAIN[b] else b
def _kmax(a, b): return a if CHAIN[a] >= CHAIN[b] else b

# Belnap lattice: F bottom, T top, N and B incomparable.
def _meet4(a, b):
    if a == b: return a
    if a == 'T': return b
    if b == 'T': return a
    return 'F'          # F with anything, or {N,B}

def _join4(a, b):
    if a == b: return a
    if a == 'F': return b
    if b == 'F': return a
    return 'T'

def _neg(a): return {'F': 'T', 'T': 'F'}.get(a, a)
def _crunch(a): return 'T' if a == 'T' else 'F'


class Base:
    """Strong-Kleene style base: chain min/max, De Morgan negation, defined
    conditionals. Sub-classes override what differs."""
    values = ('F', 'T')
    designated = frozenset('T')
    unassigned = 'F'

    def Assertion(self, a): return a
    def Negation(self, a): return _neg(a)
    def Conjunction(self, a, b): return _kmin(a, b)
    def Disjunction(self, a, b): return _kmax(a, b)
    def MaterialConditional(self, a, b): return self.Disjunction(self.Negation(a), b)
    def MaterialBiconditional(self, a, b):
        return self.Conjunction(self.MaterialConditional(a, b), self.MaterialConditional(b, a))
    def Conditional(self, a, b): return self.MaterialConditional(a, b)
    def Biconditional(self, a, b):
        return self.Conjunction(self.Conditional(a, b), self.Conditional(b, a))

    # generalised operations over a (possibly empty) list of values
    @property
    def top(self): return self.values[-1]
    @property
    def bottom(self): return self.values[0]

    def gen_or(self, vals):
        r = self.bottom
        for v in vals: r = _kmax(r, v)
        return r
    def gen_and(self, vals):
        r = self.top
        for v in vals: r = _kmin(r, v)
        return r
    def some(self, vals): return self.gen_or(vals)       # existential
    def every(self, vals): return self.gen_and(vals)     # universal
    def poss(self, vals): return self.gen_or(vals)       # possibility
    def nec(self, vals): return self.gen_and(vals)       # necessity


class CPL(Base): pass

class K3(Base):
    values = ('F', 'N', 'T'); unassigned = 'N'

class LP(Base):
    values = ('F', 'B', 'T'); designated = frozenset('BT'); unassigned = 'F'

class FDE(Base):
    values = ('F', 'N', 'B', 'T'); designated = frozenset('BT'); unassigned = 'N'
    def Conjunction(self, a, b): return _meet4(a, b)
    def Disjunction(self, a, b): return _join4(a, b)
    def gen_or(self, vals):
        r = 'F'
        for v in vals: r = _join4(r, v)
        return r
    def gen_and(self, vals):
        r = 'T'
        for v in vals: r = _meet4(r, v)
        return r

class FDELinear(FDE):
    """NOT the reference: the chain F < N < B < T with min/max. Only used to
    *diagnose* a table mismatch as 'linear order instead of lattice'."""
    _o = dict(F=0, N=1, B=2, T=3)
    def Conjunction(self, a, b): return a if self._o[a] <= self._o[b] else b
    def Disjunction(self, a, b): return a if self._o[a] >= self._o[b] else b
    def gen_or(self, vals):
        r = 'F'
        for v in vals: r = self.Disjunction(r, v)
        return r
    def gen_and(self, vals):
        r = 'T'
        for v in vals: r = self.Conjunction(r, v)
        return r

class K3W(K3):
    "Weak Kleene: N is infectious in conjunction and disjunction."
    def Conjunction(self, a, b): return 'N' if 'N' in (a, b) else _kmin(a, b)
    def Disjunction(self, a, b): return 'N' if 'N' in (a, b) else _kmax(a, b)

class K3WQ(K3W):
    "Weak Kleene with weak quantifiers (and weak modal operators)."
    def some(self, vals):
        vals = list(vals)
        return 'N' if 'N' in vals else Base.gen_or(self, vals)
    def every(self, vals):
        vals = list(vals)
        return 'N' if 'N' in vals else Base.gen_and(self, vals)
    poss = some
    nec = every

class B3E(K3W):
    "Bochvar external: weak connectives, external assertion and conditional."
    def Assertion(self, a): return _crunch(a)
    def Conditional(self, a, b):
        return self.MaterialConditional(_crunch(a), _crunch(b))

class L3(K3):
    def Conditional(self, a, b):
        return 'T' if a == b else self.MaterialConditional(a, b)

class G3(K3):
    def Negation(self, a): return 'T' if a == 'F' else 'F'
    def Conditional(self, a, b):
        return 'T' if CHAIN[a] <= CHAIN[b] else b

class RM3(LP):
    def Conditional(self, a, b):
        return 'F' if CHAIN[a] > CHAIN[b] else self.MaterialConditional(a, b)

class GO(K3):
    "Gappy Object 3-valued logic: connectives see only 'is it T'."
    def Assertion(self, a): return _crunch(a)
    def Conjunction(self, a, b): return _kmin(_crunch(a), _crunch(b))
    def Disjunction(self, a, b): return _kmax(_crunch(a), _crunch(b))
    def Conditional(self, a, b):
        # documented definition: (A > B) v (~(A v ~A) & ~(B v ~B))
        n = self.Negation
        return self.Disjunction(
            self.MaterialConditional(a, b),
            self.Conjunction(n(self.Disjunction(a, n(a))), n(self.Disjunction(b, n(b)))))
    def gen_or(self, vals): return Base.gen_or(self, map(_crunch, vals))
    def gen_and(self, vals): return Base.gen_and(self, map(_crunch, vals))

class MH(K3):
    "Paracomplete hybrid (Caret)."
    def Disjunction(self, a, b):
        return 'F' if a == b == 'N' else _kmax(a, b)
    def Conditional(self, a, b):
        return 'F' if (a == 'T' and b != 'T') else 'T'
    def some(self, vals):
        vs = set(vals)
        if 'T' in vs: return 'T'
        if 'N' in vs and 'F' in vs: return 'N'
        return 'F'

class NH(LP):
    "Paraconsistent hybrid (Caret)."
    def Conjunction(self, a, b):
        return 'T' if a == b == 'B' else _kmin(a, b)
    def Conditional(self, a, b):
        return 'F' if (a != 'F' and b == 'F') else 'T'
    def every(self, vals):
        vs = set(vals)
        if 'F' in vs: return 'F'
        if 'B' in vs and 'T' in vs: return 'B'
        return 'T'

class P3(K3):
    "Post 3-valued: cyclic negation, conjunction by De Morgan."
    def Negation(self, a): return {'T': 'N', 'N': 'F', 'F': 'T'}[a]
    def Conjunction(self, a, b):
        n = self.Negation
        return n(self.Disjunction(n(a), n(b)))


BASES = dict(CPL=CPL, FDE=FDE, K3=K3, LP=LP, K3W=K3W, K3WQ=K3WQ, B3E=B3E, L3=L3,
             G3=G3, RM3=RM3, GO=GO, MH=MH, NH=NH, P3=P3)

FRAME_PREFIX = (('S5', 'equivalence'), ('S4', 'preorder'), ('K', 'any'), ('T', 'reflexive'))
CLASSICAL = dict(CPL=('CPL', None, False), CFOL=('CPL', None, True), K=('CPL', 'any', True),
                 D=('CPL', 'serial', True), T=('CPL', 'reflexive', True),
                 S4=('CPL', 'preorder', True), S5=('CPL', 'equivalence', True))
UNQUANTIFIED = frozenset({'CPL', 'P3'})


class Sem:
    """Semantics of one registered logic, by its ``Meta.name``."""

    def __init__(self, name, fde_linear=False):
        self.name = name
        self.fde_linear = fde_linear
        if name in CLASSICAL:
            base, frame, q = CLASSICAL[name]
            self.classical = True
        elif name in BASES:
            base, frame, q = name, None, name not in UNQUANTIFIED
            self.classical = False
        else:
            self.classical = False
            for pre, fr in FRAME_PREFIX:
                if name.startswith(pre) and name[len(pre):] in BASES and name[len(pre):] != 'CPL':
                    base, frame, q = name[len(pre):], fr, True
                    break
            else:
                raise KeyError(f'REF-SEM has no semantics for logic {name!r}')
        self.base_name = base
        self.base = FDELinear() if (fde_linear and base == 'FDE') else BASES[base]()
        self.frame = frame
        self.modal = frame is not None
        self.quantified = q
        self.values = self.base.values
        self.designated = self.base.designated
        self.unassigned = self.base.unassigned

    def fn(self, oper, *vals):
        return getattr(self.base, oper)(*vals)

    def table(self, oper):
        n = syn.ARITY[oper]
        return {vs: self.fn(oper, *vs) for vs in product(self.values, repeat=n)}

    def is_opaque(self, t):
        if t[0] == 'Q' and not self.quantified:
            return True
        if t[0] == 'O' and t[1] in syn.MODAL and not self.modal:
            return True
        return False

    # ---- frames
    def frame_ok(self, R, worlds):
        "R: dict world -> set of worlds."
        fr = self.frame
        if fr in (None, 'any'):
            return True
        if fr == 'serial':
            return all(R.get(w) for w in worlds)
        if fr in ('reflexive', 'preorder', 'equivalence'):
            if not all(w in R.get(w, ()) for w in worlds):
                return False
        if fr in ('preorder', 'equivalence'):
            for a in worlds:
                for b in R.get(a, ()):
                    for c in R.get(b, ()):
                        if c not in R.get(a, ()):
                            return False
        if fr == 'equivalence':
            for a in worlds:
                for b in R.get(a, ()):
                    if a not in R.get(b, ()):
                        return False
        return True

    def closure(self, pairs, worlds):
        """The least relation containing ``pairs`` over ``worlds`` that
        satisfies the frame condition (not defined for 'serial')."""
        R = {w: set() for w in worlds}
        for a, b in pairs:
            R.setdefault(a, set()).add(b)
            R.setdefault(b, set())
        fr = self.frame
        if fr in ('reflexive', 'preorder', 'equivalence'):
            for w in R: R[w].add(w)
        changed = fr in ('preorder', 'equivalence')
        while changed:
            changed = False
            for a in list(R):
                for b in list(R[a]):
                    if fr == 'equivalence' and a not in R[b]:
                        R[b].add(a); changed = True
                    for c in list(R[b]):
                        if c not in R[a]:
                            R[a].add(c); changed = True
        return R


@lru_cache(maxsize=None)
def sem(name) -> Sem:
    return Sem(name)


@lru_cache(maxsize=None)
def sem_linear(name) -> Sem:
    "DIAGNOSIS ONLY: the logic with the FDE family read on the chain F<N<B<T."
    return Sem(name, fde_linear=True)


class Interp:
    """An interpretation in *data* form, as the library's models also store it:

    worlds   iterable of ints
    R        dict world -> set(world)
    domain   list of constant tuples ('c', i, s) -- every element is named
    atoms    dict (world, atom-tuple) -> value
    preds    dict (world, pred-tuple, params-tuple) -> value
    opaques  dict (world, sentence-tuple) -> value
    Missing entries take the logic's unassigned value.
    ``empty_domain_ok``: evaluate quantifiers over an empty domain by the
    bottom/top convention (C08 only).
    """

    def __init__(self, sem_, worlds=(0,), R=None, domain=(), atoms=None, preds=None, opaques=None):
        self.sem = sem_
        self.worlds = list(worlds)
        self.R = R if R is not None else {w: set() for w in self.worlds}
        self.domain = list(domain)
        self.atoms = atoms if atoms is not None else {}
        self.preds = preds if preds is not None else {}
        self.opaques = opaques if opaques is not None else {}

    def value(self, t, w=0):
        S = self.sem
        k = t[0]
        if S.is_opaque(t):
            return self.opaques.get((w, t), S.unassigned)
        if k == 'A':
            return self.atoms.get((w, t), S.unassigned)
        if k == 'P':
            return self.preds.get((w, t[1], t[2]), S.unassigned)
        if k == 'O':
            o = t[1]
            if o == 'Possibility':
                return S.base.poss([self.value(t[2][0], w2) for w2 in sorted(self.R.get(w, ()))])
            if o == 'Necessity':
                return S.base.nec([self.value(t[2][0], w2) for w2 in sorted(self.R.get(w, ()))])
            return getattr(S.base, o)(*[self.value(x, w) for x in t[2]])
        if k == 'Q':
            vals = [self.value(syn.subst(t[3], c, t[2]), w) for c in self.domain]
            if t[1] == 'Existential':
                return S.base.some(vals)
            return S.base.every(vals)
        raise TypeError(t)

    def designates(self, t, w=0):
        return self.value(t, w) in self.sem.designated

    def is_countermodel(self, premises, conclusion, w=0):
        return (all(self.designates(p, w) for p in premises)
                and not self.designates(conclusion, w))

    def describe(self):
        return dict(
            logic=self.sem.name, worlds=self.worlds,
            R=sorted((a, b) for a, bs in self.R.items() for b in bs),
            domain=[syn.show(c) for c in self.domain],
            atoms={f'{syn.show(a)}@{w}': v for (w, a), v in sorted(self.atoms.items())},
            preds={f'{syn.show(("P", p, ps))}@{w}': v for (w, p, ps), v in sorted(self.preds.items())},
            opaques={f'{syn.show(s)}@{w}': v for (w, s), v in sorted(self.opaques.items(), key=repr)})


# ------------------------------------------------------------------ self test

def selftest():
    """Algebraic sanity of the reference tables themselves."""
    problems = []
    V3 = ('F', 'N', 'T')
    # L3 conditional = min(1, 1 - a + b)
    num = dict(F=0, N=1, T=2)
    inv = {0: 'F', 1: 'N', 2: 'T'}
    for a, b in product(V3, repeat=2):
        if L3().Conditional(a, b) != inv[min(2, 2 - num[a] + num[b])]:
            problems.append(('L3', a, b))
        # G3 conditional closed form and negation = a -> F
        if G3().Negation(a) != G3().Conditional(a, 'F'):
            problems.append(('G3neg', a))
        # K3 De Morgan
        k = K3()
        if k.Negation(k.Conjunction(a, b)) != k.Disjunction(k.Negation(a), k.Negation(b)):
            problems.append(('K3dm', a, b))
    # RM3: closed form (Sobocinski)
    rm = RM3()
    want = {('F','F'):'T',('F','B'):'T',('F','T'):'T',('B','F'):'F',('B','B'):'B',('B','T'):'T',
            ('T','F'):'F',('T','B'):'F',('T','T'):'T'}
    for k_, v in want.items():
        if rm.Conditional(*k_) != v: problems.append(('RM3', k_))
    # FDE lattice laws and De Morgan
    f = FDE()
    for a, b, c in product(f.values, repeat=3):
        if f.Conjunction(a, f.Conjunction(b, c)) != f.Conjunction(f.Conjunction(a, b), c):
            problems.append(('FDEassoc', a, b, c))
        if f.Conjunction(a, f.Disjunction(a, b)) != a:
            problems.append(('FDEabsorb', a, b))
        if f.Negation(f.Conjunction(a, b)) != f.Disjunction(f.Negation(a), f.Negation(b)):
            problems.append(('FDEdm', a, b))
    # FDE as pairs (told-true, told-false)
    enc = dict(T=(1, 0), F=(0, 1), B=(1, 1), N=(0, 0)); dec = {v: k for k, v in enc.items()}
    for a, b in product(f.values, repeat=2):
        (at, af), (bt, bf) = enc[a], enc[b]
        if f.Conjunction(a, b) != dec[(at & bt, af | bf)]: problems.append(('FDEconj', a, b))
        if f.Disjunction(a, b) != dec[(at | bt, af & bf)]: problems.append(('FDEdisj', a, b))
    # K3 and LP are sub-algebras of FDE
    for a, b in product(V3, repeat=2):
        if K3().Conjunction(a, b) != f.Conjunction(a, b): problems.append(('K3sub', a, b))
    for a, b in product(('F', 'B', 'T'), repeat=2):
        if LP().Disjunction(a, b) != f.Disjunction(a, b): problems.append(('LPsub', a, b))
    # GO documented conditional: T iff a == b or material is T
    g = GO()
    for a, b in product(V3, repeat=2):
        alt = 'T' if a == b else g.MaterialConditional(a, b)
        if g.Conditional(a, b) != alt: problems.append(('GOcond', a, b, g.Conditional(a, b), alt))
    # P3 cyclic negation has period 3
    p = P3()
    for a in V3:
        if p.Negation(p.Negation(p.Negation(a))) != a: problems.append(('P3', a))
    # weak Kleene infectious
    wk = K3W()
    for a in V3:
        if wk.Conjunction(a, 'N') != 'N' or wk.Disjunction('N', a) != 'N': problems.append(('K3W', a))
    return problems
