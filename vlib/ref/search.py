"""REF-SEARCH: bounded countermodel search in the reference semantics.

``find_countermodel(S, premises, conclusion, ...)`` returns a ``Result`` with
``.model`` (an ``Interp`` or None) and ``.complete`` (whether the explored
space was the whole space for this bound, so that "none found" is meaningful
within the bound). On the propositional fragment of a logic (no modal
operator the logic interprets, no quantifier/predicate it interprets) the
space is the finite set of valuations of atoms and opaque sub-sentences, so
``complete`` means decided.
"""
from __future__ import annotations

import random
from itertools import product

from . import syn
from .sem import Interp


class Result:
    __slots__ = ('model', 'complete', 'explored', 'space', 'kind')

    def __init__(self, model, complete, explored, space, kind):
        self.model = model
        self.complete = complete
        self.explored = explored
        self.space = space
        self.kind = kind


def _atoms_and_opaques(S, sentences):
    """Atoms, maximal opaque sub-sentences, predicates and constants that the
    evaluation of ``sentences`` in S can consult."""
    atoms, opaques, preds, consts = set(), set(), set(), set()
    has_q = has_m = False

    def walk(t):
        nonlocal has_q, has_m
        if S.is_opaque(t):
            opaques.add(t)
            consts.update(syn.constants(t))
            return
        k = t[0]
        if k == 'A':
            atoms.add(t)
        elif k == 'P':
            preds.add(t[1])
            consts.update(p for p in t[2] if p[0] == 'c')
        elif k == 'Q':
            has_q = True
            walk(t[3])
        else:
            if t[1] in syn.MODAL:
                has_m = True
            for x in t[2]:
                walk(x)
    for s in sentences:
        walk(s)
    return atoms, opaques, preds, consts, has_q, has_m


def ground_predications(sentences, S, domain):
    """Ground predications that can be consulted: with quantifiers every tuple
    over the domain, otherwise those that occur."""
    occ = set()

    def walk(t, env_has_q):
        if S.is_opaque(t):
            return
        k = t[0]
        if k == 'P':
            occ.add((t[1], t[2]))
        elif k == 'Q':
            walk(t[3], True)
        elif k == 'O':
            for x in t[2]:
                walk(x, env_has_q)
    for s in sentences:
        walk(s, False)
    out = set()
    for p, ps in occ:
        if any(x[0] == 'v' for x in ps):
            # instantiate variables by all domain elements
            slots = [[x] if x[0] == 'c' else domain for x in ps]
            for combo in product(*slots):
                out.add((p, tuple(combo)))
        else:
            out.add((p, ps))
    return sorted(out)


def partitions(items):
    "All set partitions of a list, as a mapping item -> representative."
    items = list(items)
    if not items:
        yield {}
        return
    first, rest = items[0], items[1:]
    for part in partitions(rest):
        # first alone
        d = dict(part)
        d[first] = first
        yield d
        # first joins an existing class (use that class's representative)
        for rep in sorted(set(part.values())):
            d = dict(part)
            d[first] = rep
            yield d


def frames(S, m, min_worlds=1):
    """Frames over worlds 0..k-1 (min_worlds <= k <= m) obeying S's frame condition. Only frames in which every world is
    reachable from world 0 (truth at world 0 depends on the generated subframe alone, which is itself a smaller frame
    enumerated here, and every frame condition used is preserved by generated subframes), and one representative
    per relabelling of the worlds other than 0 (valuations are enumerated completely, so isomorphic frames give
    isomorphic model sets)."""
    from itertools import permutations
    for k in range(min_worlds, m + 1):
        ws = list(range(k))
        pairs = [(i, j) for i in ws for j in ws]
        perms = [dict(zip(ws, (0,) + p)) for p in permutations(ws[1:])][1:]
        for bits in product((0, 1), repeat=len(pairs)):
            R = {w: set() for w in ws}
            for (i, j), bit in zip(pairs, bits):
                if bit:
                    R[i].add(j)
            # reachability from 0
            seen, todo = {0}, [0]
            while todo:
                for v in R[todo.pop()]:
                    if v not in seen:
                        seen.add(v)
                        todo.append(v)
            if len(seen) < k:
                continue
            if perms:
                on = {pr for pr, bit in zip(pairs, bits) if bit}
                if any(tuple(1 if (q[i], q[j]) in on else 0 for i, j in pairs) < bits for q in perms):
                    continue
            if S.frame_ok(R, ws):
                yield ws, R


def find_countermodel(S, premises, conclusion, *, max_worlds=2, extra_consts=1, limit=4000,
                      rng=None, sample=1500, min_worlds=1):
    """Search an interpretation of logic S designating all premises and not the
    conclusion at world 0."""
    rng = rng or random.Random(0)
    sentences = list(premises) + [conclusion]
    atoms, opaques, preds, consts, has_q, has_m = _atoms_and_opaques(S, sentences)
    atoms = sorted(atoms)
    opaques = sorted(opaques, key=repr)
    # ---- domain
    domain = sorted(consts)
    if has_q:
        used = {(c[1], c[2]) for c in domain}
        n_extra = extra_consts if domain else extra_consts + 1      # at least two elements without named constants
        k = 0
        while n_extra > 0:
            cand = (k % 4, 7 + k // 4)       # fresh names a7, b7, ...
            if cand not in used:
                domain.append(('c',) + cand)
                n_extra -= 1
            k += 1
        domain_sizes = range(max(1, len(consts)), len(domain) + 1)
    else:
        domain_sizes = [len(domain)]
    world_sets = list(frames(S, max_worlds, min_worlds)) if (S.modal and has_m) else [([0], {0: ({0} if S.frame in ('reflexive', 'preorder', 'equivalence', 'serial') else set())})]
    uses_identity = S.classical and syn.IDENTITY in preds
    total_space = 0
    explored = 0
    complete = True
    V = S.values
    for dsize in domain_sizes:
        dom = domain[:dsize]
        gps = ground_predications(sentences, S, dom) if preds else []
        if S.classical:
            gps = [g for g in gps if g[0] not in (syn.IDENTITY, syn.EXISTENCE)]
        parts_one = list(partitions(dom)) if uses_identity else [{c: c for c in dom}]
        for ws, R in world_sets:
            # identity is evaluated world by world (each frame has its own extension): one partition per world, as long
            # as that stays small; otherwise the same partition everywhere (a subset of the interpretations)
            if uses_identity and len(ws) > 1 and len(parts_one) ** len(ws) <= 64:
                parts_list = [dict(zip(ws, combo)) for combo in product(parts_one, repeat=len(ws))]
            else:
                if uses_identity and len(ws) > 1:
                    complete = False
                parts_list = [{w: p_ for w in ws} for p_ in parts_one]
            for part in parts_list:
                # independent slots
                if uses_identity:
                    gp_slots_w = {w: sorted({(p, tuple(part[w].get(x, x) for x in ps)) for p, ps in gps}) for w in ws}
                else:
                    gp_slots_w = {w: gps for w in ws}
                slots = [('A', w, a) for w in ws for a in atoms] + \
                        [('O', w, o) for w in ws for o in opaques] + \
                        [('P', w, g) for w in ws for g in gp_slots_w[w]]
                space = len(V) ** len(slots)
                total_space += space
                if space <= limit:
                    cands = product(V, repeat=len(slots))
                    n_here = space
                else:
                    complete = False
                    n_here = sample
                    cands = (_sampled(rng, V, len(slots), i) for i in range(sample))
                for vals in cands:
                    explored += 1
                    I = _build(S, ws, R, dom, part, slots, vals, gps, uses_identity)
                    if I.is_countermodel(premises, conclusion, 0):
                        # re-evaluate from scratch before reporting
                        J = _build(S, ws, R, dom, part, slots, vals, gps, uses_identity)
                        if J.is_countermodel(premises, conclusion, 0):
                            return Result(J, complete, explored, total_space, 'found')
    return Result(None, complete, explored, total_space, 'none')


def _sampled(rng, V, n, i):
    if i < len(V):
        return (V[i],) * n                       # constant valuations first
    if i < 3 * len(V):
        # mostly one value with a few deviations
        base = V[i % len(V)]
        return tuple(base if rng.random() < 0.7 else rng.choice(V) for _ in range(n))
    return tuple(rng.choice(V) for _ in range(n))


def _build(S, ws, R, dom, part, slots, vals, gps, uses_identity):
    atoms, opq, preds = {}, {}, {}
    for (k, w, x), v in zip(slots, vals):
        if k == 'A':
            atoms[(w, x)] = v
        elif k == 'O':
            opq[(w, x)] = v
        else:
            preds[(w, x[0], x[1])] = v
    if S.classical:
        if uses_identity:
            # extend predicate values along the identity classes (of each world)
            for w in ws:
                for p, ps in gps:
                    rep = tuple(part[w].get(x, x) for x in ps)
                    if (w, p, rep) in preds:
                        preds[(w, p, ps)] = preds[(w, p, rep)]
        for w in ws:
            for c1 in dom:
                preds[(w, syn.EXISTENCE, (c1,))] = 'T'
                for c2 in dom:
                    same = (part[w].get(c1, c1) == part[w].get(c2, c2)) if uses_identity else (c1 == c2)
                    preds[(w, syn.IDENTITY, (c1, c2))] = 'T' if same else 'F'
    return Interp(S, worlds=ws, R=R, domain=dom, atoms=atoms, preds=preds, opaques=opq)


def is_propositional_for(S, sentences):
    "No quantifier/predicate/modal operator that S interprets: valuations decide."
    atoms, opaques, preds, consts, has_q, has_m = _atoms_and_opaques(S, sentences)
    return not preds and not has_q and not (has_m and S.modal)


def entails(S, premises, conclusion, limit=70000):
    """Complete decision on the propositional fragment: True/False, or None
    if the valuation space exceeds ``limit``."""
    r = find_countermodel(S, premises, conclusion, limit=limit, sample=0)
    if r.model is not None:
        return False
    return True if r.complete else None
