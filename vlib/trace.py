"""Event tap and online bookkeeping monitor (C16), witness-freshness monitor (C06).

``Tap(tab)`` must be attached to an *empty* Tableau (before logic/argument are
set) so that trunk events are observed. It records an event log at the
tableau's own event bus and exposes ``check_step`` / ``check_finished`` which
compare the public observables with what the log and a recomputation say.
Problems are returned as (clause, detail) pairs; nothing raises.
"""
from __future__ import annotations

from . import tabs
from .ref import syn


def _node_steps(tab, branch, node):
    """(STEP_ADDED, STEP_TICKED) of a node relative to a branch, through the public
    ``tab.stat`` API: the addition is recorded on the branch where it happened
    (this branch or an ancestor); a tick is recorded on the branch where it
    happened or was inherited from."""
    sa = st = None
    x = branch
    while x is not None:
        try:
            rec = tab.stat(x, node)
        except KeyError:
            rec = None
        if rec is not None:
            v = rec.get('STEP_ADDED')
            if sa is None and isinstance(v, int) and not isinstance(v, bool):
                sa = v
            t = rec.get('STEP_TICKED')
            if st is None and t is not None:
                st = t
        x = x.parent
    return sa, st


class Tap:
    def __init__(self, tab):
        from pytableaux.proof import Tableau, Rule
        self.tab = tab
        self.log = []                  # (seq, event, info)
        self.counts = {}
        self.prev = {}                 # id(branch) -> list of node ids at last check
        self.prev_closed = {}          # id(branch) -> bool
        self.prev_closed_checked = {}
        self.new_ticks = []
        self.add_step = {}             # (id(branch), id(node)) -> tab.current_step when the add event fired
        self.close_step = {}           # id(branch) -> tab.current_step when the close event fired
        self.born = {}                 # id(branch) -> (parent-id or None, nodes inherited, ticks inherited)
        self.order = []                # branch ids in AFTER_BRANCH_ADD order
        self.rule_applies = 0
        self.last_apply_target = None
        self.before_apply = []
        self.problems = []
        self.trunk_built = False
        E = Tableau.Events
        tab.on({
            E.AFTER_BRANCH_ADD: self._branch_add,
            E.AFTER_BRANCH_CLOSE: self._branch_close,
            E.AFTER_NODE_ADD: self._node_add,
            E.AFTER_NODE_TICK: self._node_tick,
            E.BEFORE_TRUNK_BUILD: lambda t: self._ev('BEFORE_TRUNK_BUILD'),
            E.AFTER_TRUNK_BUILD: self._trunk,
            E.AFTER_RULE_APPLY: self._rule_apply,
            E.AFTER_FINISH: lambda t: self._ev('AFTER_FINISH'),
        })

    # ---- listeners
    def _ev(self, name, **info):
        self.counts[name] = self.counts.get(name, 0) + 1
        self.log.append((len(self.log), name, info))

    def _branch_add(self, branch):
        par = branch.parent
        self.born[id(branch)] = (id(par) if par is not None else None,
                                 len(self.prev.get(id(par), ())) if par is not None else 0,
                                 len(branch), sum(1 for n in branch if branch.is_ticked(n)))
        self.order.append(id(branch))
        self._ev('AFTER_BRANCH_ADD', branch=id(branch), step=self.tab.current_step)

    def _branch_close(self, branch):
        self.close_step.setdefault(id(branch), self.tab.current_step)
        self._ev('AFTER_BRANCH_CLOSE', branch=id(branch), step=self.tab.current_step)

    def _node_add(self, node, branch):
        self.add_step.setdefault((id(branch), id(node)), self.tab.current_step)
        self._ev('AFTER_NODE_ADD', branch=id(branch), node=id(node), step=self.tab.current_step)

    def _node_tick(self, node, branch):
        self._ev('AFTER_NODE_TICK', branch=id(branch), node=id(node), step=self.tab.current_step)
        self.new_ticks.append((node, branch, self.tab.current_step))

    def _trunk(self, tab):
        self.trunk_built = True
        self._ev('AFTER_TRUNK_BUILD')

    def _rule_apply(self, target):
        self.rule_applies += 1
        self.last_apply_target = target
        self._ev('AFTER_RULE_APPLY', rule=target.get('rule').name if target.get('rule') else None)

    # ---- checks
    def _p(self, clause, **detail):
        self.problems.append((clause, detail))

    def check_trunk(self, arg, desig, w0):
        """Right after the trunk is built."""
        tab = self.tab
        if len(tab) != 1:
            self._p('trunk-branch-count', branches=len(tab))
            return
        prem, conc = arg
        if desig:
            want = [('S', p, True, w0) for p in prem] + [('S', conc, False, w0)]
        else:
            want = [('S', p, None, w0) for p in prem] + [('S', syn.neg(conc), None, w0)]
        got = tabs.branch_specs(tab[0])
        if got != want:
            self._p('trunk-content', got=[tabs.show_spec(s) for s in got], want=[tabs.show_spec(s) for s in want])

    def check_step(self, entry, hist_len_before, applies_before):
        """After every step() (entry may be None)."""
        tab = self.tab
        P = self._p
        # history: +1 per non-None step, the entry returned is the one recorded
        if entry is not None:
            if len(tab.history) != hist_len_before + 1:
                P('history-length', before=hist_len_before, after=len(tab.history))
            elif tab.history[-1] is not entry:
                P('history-entry-differs-from-returned')
            if self.rule_applies != applies_before + 1:
                P('rule-apply-events-per-step', events=self.rule_applies - applies_before)
            elif self.last_apply_target is not entry.target:
                P('rule-apply-event-target-differs')
            if entry.target.get('rule') is not entry.rule:
                P('entry-rule-differs-from-target-rule')
            if not any(t is entry.target for t in entry.rule.history):
                P('rule-history-missing-target', rule=entry.rule.name)
        else:
            if len(tab.history) != hist_len_before:
                P('history-grew-on-none-step')
        cur = tab.current_step
        before = dict(self.prev)
        for bi, b in enumerate(tab):
            bid = id(b)
            ids = [id(n) for n in b]
            old = before.get(bid)
            if old is None:
                # created since the last check: must extend its parent's nodes as of creation
                par = b.parent
                if par is not None:
                    pold = before.get(id(par))
                    if pold is not None and ids[:len(pold)] != pold:
                        P('new-branch-does-not-extend-parent', branch=bi)
            else:
                if ids[:len(old)] != old:
                    P('branch-shrank-or-prefix-changed', branch=bi, before=len(old), after=len(ids))
                if self.prev_closed.get(bid) and len(ids) != len(old):
                    P('closed-branch-extended', branch=bi)
            self.prev[bid] = ids
            self.prev_closed[bid] = bool(b.closed)
            # step numbers of what was added since the last check (full pass: check_all_steps)
            nodes = list(b)
            first_new = len(old) if old is not None else 0
            if old is None and b.parent is not None:
                first_new = len(before.get(id(b.parent), ()))
            self._check_steps(b, bi, nodes, first_new, cur)
        # ticks that happened since the last check
        for node, branch, ev_step in self.new_ticks:
            try:
                st = tab.stat(branch, node, 'STEP_TICKED')
                sa, _ = _node_steps(tab, branch, node)
            except Exception as e:
                P('stat-lookup-raises', error=type(e).__name__, what='tick')
                continue
            if st is None:
                P('tick-event-without-recorded-tick-step')
            else:
                if st > cur:
                    P('step-ticked-in-the-future', step=st, current=cur)
                elif st > ev_step:
                    # recorded with a step number that had not been reached when the tick happened
                    P('step-ticked-in-the-future', step=st, current=ev_step, at='tick-event')
                if sa is not None and st < sa:
                    P('step-ticked-before-added', ticked=st, added=sa)
            if not branch.is_ticked(node):
                P('tick-event-for-unticked-node')
        self.new_ticks = []
        # the open view
        want_open = [b for b in tab if not b.closed]
        got_open = list(tab.open)
        if len(got_open) != len(want_open) or any(x is not y for x, y in zip(got_open, want_open)):
            P('open-view-differs-from-unclosed-branches', open=len(got_open), unclosed=len(want_open))
        if [id(b) for b in tab] != self.order:
            P('branch-order-differs-from-add-events')

    def _check_steps(self, b, bi, nodes, first_new, cur):
        tab = self.tab
        P = self._p
        try:
            last = 0
            if first_new > 0:
                sa, _ = _node_steps(tab, b, nodes[first_new - 1])
                last = sa or 0
            for n in nodes[first_new:]:
                sa, _ = _node_steps(tab, b, n)
                if sa is None:
                    P('node-without-recorded-step-added', branch=bi)
                    continue
                if sa < last:
                    P('step-added-decreases-along-branch', branch=bi, step=sa, previous=last)
                if sa > cur:
                    P('step-added-in-the-future', branch=bi, step=sa, current=cur)
                else:
                    x = b
                    while x is not None:
                        ev = self.add_step.get((id(x), id(n)))
                        if ev is not None:
                            if sa > ev:
                                P('step-added-in-the-future', branch=bi, step=sa, current=ev, at='add-event')
                            break
                        x = x.parent
                last = max(last, sa)
                if getattr(n, 'step', None) is not None and n.step > cur:
                    P('node-step-in-the-future', branch=bi)
            if b.closed and not self.prev_closed_checked.get(id(b)):
                self.prev_closed_checked[id(b)] = True
                sc = tab.stat(b, 'STEP_CLOSED')
                sc = sc if isinstance(sc, int) and not isinstance(sc, bool) else int(getattr(sc, 'value', 0))
                if sc > cur:
                    P('step-closed-in-the-future', branch=bi, step=sc, current=cur)
                elif sc > self.close_step.get(id(b), cur):
                    P('step-closed-in-the-future', branch=bi, step=sc, current=self.close_step[id(b)], at='close-event')
                if sc < last:
                    P('step-closed-before-last-addition', branch=bi, closed=sc, last_added=last)
        except Exception as e:
            P('stat-lookup-raises', error=type(e).__name__, branch=bi)

    def check_ticks(self):
        "Full pass over tick records (at finish): recorded on the branch itself or inherited."
        tab = self.tab
        P = self._p
        cur = tab.current_step
        for bi, b in enumerate(tab):
            for n in b:
                try:
                    rec = tab.stat(b, n)
                except KeyError:
                    rec = None
                st_self = rec.get('STEP_TICKED') if rec is not None else None
                sa, st_any = _node_steps(tab, b, n)
                if b.is_ticked(n):
                    st = st_self if st_self is not None else st_any
                    if st is None:
                        P('ticked-node-without-recorded-tick-step', branch=bi)
                    else:
                        if st > cur:
                            P('step-ticked-in-the-future', branch=bi, step=st, current=cur)
                        if sa is not None and st < sa:
                            P('step-ticked-before-added', branch=bi, ticked=st, added=sa)
                elif st_self is not None:
                    P('tick-step-recorded-for-unticked-node', branch=bi)

    def check_events(self):
        """Accounting of the event log against the final public state."""
        tab = self.tab
        P = self._p
        c = self.counts
        if c.get('AFTER_BRANCH_ADD', 0) != len(tab):
            P('branch-add-events', events=c.get('AFTER_BRANCH_ADD', 0), branches=len(tab))
        nclosed = sum(1 for b in tab if b.closed)
        if c.get('AFTER_BRANCH_CLOSE', 0) != nclosed:
            P('branch-close-events', events=c.get('AFTER_BRANCH_CLOSE', 0), closed=nclosed)
        adds = 0
        for b in tab:
            par, _, inherited, _ = self.born.get(id(b), (None, 0, 0, 0))
            adds += len(b) - (inherited if par is not None else 0)
        if c.get('AFTER_NODE_ADD', 0) != adds:
            P('node-add-events', events=c.get('AFTER_NODE_ADD', 0), additions=adds)
        if c.get('AFTER_RULE_APPLY', 0) != len(tab.history):
            P('rule-apply-events', events=c.get('AFTER_RULE_APPLY', 0), history=len(tab.history))

    def check_finished(self):
        """After finish: tree and stats against a recomputation."""
        tab = self.tab
        P = self._p
        tree = tab.tree
        stats = tab.stats
        branches = list(tab)
        if tree is None:
            P('no-tree')
            return
        # ---- leaves <-> branches, node paths
        leaves = []

        def walk(t, path):
            path = path + list(t.nodes)
            if t.children:
                if t.leaf:
                    P('structure-with-children-marked-leaf')
                for ch in t.children:
                    walk(ch, path)
            else:
                leaves.append((t, path))
        walk(tree, [])
        if len(leaves) != len(branches):
            P('leaf-count', leaves=len(leaves), branches=len(branches))
        bypath = {tuple(id(n) for n in b): b for b in branches}
        matched = set()
        for t, path in leaves:
            key = tuple(id(n) for n in path)
            b = bypath.get(key)
            if b is None:
                P('leaf-path-is-no-branch', length=len(path))
                continue
            matched.add(id(b))
            if not t.leaf:
                P('terminal-structure-not-marked-leaf')
            if bool(t.closed) != bool(b.closed) or bool(t.open) == bool(b.closed):
                P('leaf-open-closed-flag', closed=bool(t.closed), branch_closed=bool(b.closed))
            if t.branch_id != b.id:
                P('leaf-branch-id')
            if t.width != 1:
                P('leaf-width', width=t.width)
        if len(matched) != len(branches):
            P('branches-without-leaf', missing=len(branches) - len(matched))

        # ---- recomputed counts
        pos = [0]

        def rec(t, depth):
            pos[0] += 1
            left = pos[0]
            own = len(t.nodes)
            desc = 0
            width = 0
            has_open = has_closed = False
            for ch in t.children:
                d, w, ho, hc = rec(ch, depth + 1)
                desc += d
                width += w
                has_open |= ho
                has_closed |= hc
            if not t.children:
                width = 1
                has_open = not t.closed
                has_closed = bool(t.closed)
            pos[0] += 1
            right = pos[0]
            if t.descendant_node_count != desc:
                P('descendant_node_count', got=t.descendant_node_count, want=desc, depth=depth)
            if t.structure_node_count != desc + own:
                P('structure_node_count', got=t.structure_node_count, want=desc + own, depth=depth)
            if t.width != width:
                P('width', got=t.width, want=width, depth=depth)
            if t.depth != depth:
                P('depth', got=t.depth, want=depth)
            if (t.left, t.right) != (left, right):
                P('left-right', got=[t.left, t.right], want=[left, right])
            if bool(t.has_open) != has_open or bool(t.has_closed) != has_closed:
                P('has_open/has_closed', got=[bool(t.has_open), bool(t.has_closed)], want=[has_open, has_closed])
            return desc + own, width, has_open, has_closed
        total, width, _, _ = rec(tree, 0)
        distinct = len({id(n) for b in branches for n in b})
        if tree.distinct_nodes != distinct:
            P('distinct_nodes', got=tree.distinct_nodes, want=distinct)
        if total != distinct:
            P('tree-node-total-differs-from-distinct-nodes', total=total, distinct=distinct)
        # ---- stats
        nopen = sum(1 for b in branches if not b.closed)
        want = dict(branches=len(branches), open_branches=nopen, closed_branches=len(branches) - nopen,
                    steps=len(tab.history), distinct_nodes=distinct)
        for k, v in want.items():
            if stats.get(k) != v:
                P('stats:' + k, got=stats.get(k), want=v)
        word = 'Valid' if tab.valid else 'Invalid' if tab.invalid else 'Completed' if tab.completed else 'Unfinished'
        if stats.get('result') != word:
            P('stats:result', got=stats.get('result'), want=word)
