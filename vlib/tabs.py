"""Helpers to drive real tableaux from reference-side node specs.

Node spec tuples:
  ('S', sentence-ast, designated|None, world|None)
  ('R', w1, w2)
  ('X', flag)        closure / quit flag nodes (read only)
  ('?', repr)        anything else (read only)
"""
from __future__ import annotations

from .ref import syn
from . import lib


def mk_node(spec):
    from pytableaux.proof import anode, sdwnode
    if spec[0] == 'S':
        return sdwnode(syn.to_lib(spec[1]), spec[2], spec[3])
    if spec[0] == 'R':
        return anode(spec[1], spec[2])
    raise ValueError(spec)


def node_spec(node):
    d = dict(node)
    if d.get('flag') is not None or d.get('is_flag'):
        return ('X', str(d.get('flag')), str(d.get('info', '')))
    if d.get('world1') is not None and d.get('world2') is not None:
        return ('R', int(d['world1']), int(d['world2']))
    s = d.get('sentence')
    if s is not None:
        w = d.get('world')
        return ('S', syn.from_lib(s), d.get('designated'), None if w is None else int(w))
    if d.get('ellipsis'):
        return ('...',)
    return ('?', repr(d))


def branch_specs(branch):
    return [node_spec(n) for n in branch]


def new_tableau(logic_name, only_rules=None, **opts):
    """A Tableau of the logic without argument. ``only_rules``: iterable of
    rule classes replacing the logic's rule set (the mechanism Rule.test uses)."""
    from pytableaux.proof import Tableau
    tab = Tableau(lib.logic(logic_name), **opts)
    if only_rules is not None:
        tab.rules.clear()
        for cls in only_rules:
            tab.rules.append(cls)
    return tab


def closure_rule_classes(logic_name):
    return tuple(lib.logic(logic_name).Rules.closure)


def access_rule_classes(logic_name, serial=False):
    from pytableaux.proof import rules
    out = []
    for group in lib.logic(logic_name).Rules.groups:
        for cls in group:
            if issubclass(cls, rules.BaseAccessRule):
                if not serial and issubclass(cls, rules.access.Serial):
                    continue
                out.append(cls)
    return tuple(out)


def uses_designation(logic_name):
    "Whether the logic's system marks nodes designated/undesignated."
    from pytableaux.lang import Argument, Atomic
    from pytableaux.proof import Tableau
    key = ('desig', logic_name)
    if key not in lib._cache:
        t = Tableau(lib.logic(logic_name), Argument(Atomic(0, 0)))
        lib._cache[key] = t[0][0].get('designated') is not None
    return lib._cache[key]


def world0(logic_name):
    return 0 if lib.logic(logic_name).Meta.modal else None


def entry_info(entry):
    "A JSON-able summary of a step entry."
    t = entry.target
    info = dict(rule=entry.rule.name)
    for k in ('world', 'world1', 'world2', 'designated', 'flag'):
        if t.get(k) is not None:
            info[k] = t.get(k)
    if t.get('constant') is not None:
        info['constant'] = syn.show(syn.param_from_lib(t['constant']))
    if t.get('node') is not None:
        info['node'] = show_spec(node_spec(t['node']))
    return info


def show_spec(spec):
    if spec[0] == 'S':
        d = {True: '+', False: '-', None: ''}[spec[2]]
        w = '' if spec[3] is None else f'@{spec[3]}'
        return f'{syn.show(spec[1])}{d}{w}'
    if spec[0] == 'R':
        return f'{spec[1]}R{spec[2]}'
    return str(spec)
