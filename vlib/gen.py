"""Seeded generators of arguments (REF-SYN tuples) for the proof workloads.

An argument is ``(premises tuple, conclusion)`` of REF-SYN sentence tuples.
Everything is driven by an explicit ``random.Random``; nothing here imports
the library.
"""
from __future__ import annotations

from itertools import product

from .ref import syn

ATOMS = [syn.atom(i) for i in range(3)]
CONSTS = [syn.const(i) for i in range(3)]
VARS = [syn.var(i) for i in range(3)]
F1, G1, H2 = syn.pred(0, 0, 1), syn.pred(1, 0, 1), syn.pred(2, 0, 2)
BIN = ['Conjunction', 'Disjunction', 'MaterialConditional', 'MaterialBiconditional', 'Conditional', 'Biconditional']
UN = ['Negation', 'Assertion']
MOD = ['Possibility', 'Necessity']

FRAGMENTS = ('prop', 'modal', 'fo', 'fomodal')


def fragments_for(S):
    "Fragments the logic interprets natively (others contain opaque parts)."
    fr = ['prop']
    if S.modal:
        fr.append('modal')
    if S.quantified:
        fr.append('fo')
    if S.modal and S.quantified:
        fr.append('fomodal')
    return fr


class SentGen:
    def __init__(self, rng, fragment='prop', natoms=3, nconsts=2, identity=0.15, existence=0.03,
                 neg_bias=0.3):
        self.rng = rng
        self.modal = fragment in ('modal', 'fomodal')
        self.fo = fragment in ('fo', 'fomodal')
        self.atoms = ATOMS[:natoms]
        self.consts = CONSTS[:nconsts]
        self.identity = identity
        self.existence = existence
        self.neg_bias = neg_bias

    def leaf(self, scope):
        r = self.rng
        if self.fo and (scope or self.consts) and (scope or r.random() < 0.75):
            terms = list(scope) * 3 + self.consts
            p = r.random()
            if p < self.identity:
                return syn.papp(syn.IDENTITY, r.choice(terms), r.choice(terms))
            if p < self.identity + self.existence:
                return syn.papp(syn.EXISTENCE, r.choice(terms))
            pr = r.choice([F1, F1, G1, H2])
            return syn.papp(pr, *[r.choice(terms) for _ in range(pr[2])])
        return r.choice(self.atoms)

    def sentence(self, depth, scope=()):
        r = self.rng
        if depth <= 0 or r.random() < 0.18:
            return self.leaf(scope)
        kinds = ['bin'] * 5 + ['un'] * 3
        if self.modal:
            kinds += ['mod'] * 3
        if self.fo and len(scope) < 2:
            kinds += ['q'] * 3
        k = r.choice(kinds)
        if k == 'bin':
            return syn.op(r.choice(BIN), self.sentence(depth - 1, scope), self.sentence(depth - 1, scope))
        if k == 'un':
            o = 'Negation' if r.random() < 0.8 else 'Assertion'
            return syn.op(o, self.sentence(depth - 1, scope))
        if k == 'mod':
            return syn.op(r.choice(MOD), self.sentence(depth - 1, scope))
        v = VARS[len(scope)]
        for _ in range(6):
            body = self.sentence(depth - 1, scope + (v,))
            if v in syn.free_vars(body):
                return syn.quant(r.choice(syn.QUANTIFIERS), v, body)
        return syn.quant(r.choice(syn.QUANTIFIERS), v, syn.papp(F1, v))

    def argument(self, max_prem=3, depth=3):
        r = self.rng
        n = r.choice([0, 1, 1, 2, 2, 3][:max_prem * 2] or [0])
        prems = tuple(self.sentence(r.randint(1, depth)) for _ in range(n))
        conc = self.sentence(r.randint(0, depth))
        return prems, conc


# ------------------------------------------------------------------ hostile shapes

def hostile(rng, S):
    """Arguments of the shapes the properties single out. Yields
    (label, (premises, conclusion)). Only shapes the logic interprets."""
    A, B, C = ATOMS
    a, b, c = CONSTS
    x, y = VARS[:2]
    Fx, Gx = syn.papp(F1, x), syn.papp(G1, x)
    neg, op, q = syn.neg, syn.op, syn.quant
    out = []
    # biconditionals of both kinds in every polarity
    for o in ('MaterialBiconditional', 'Biconditional', 'Conditional', 'MaterialConditional'):
        out += [
            (f'bicond:{o}:thm', ((), op(o, A, B))),
            (f'bicond:{o}:neg-thm', ((), neg(op(o, A, B)))),
            (f'bicond:{o}:prem', ((op(o, A, B),), C)),
            (f'bicond:{o}:neg-prem', ((neg(op(o, A, B)),), C)),
            (f'bicond:{o}:mp', ((op(o, A, B), A), B)),
            (f'bicond:{o}:mt', ((op(o, A, B), neg(B)), neg(A))),
            (f'bicond:{o}:glut', ((op(o, A, B), B, neg(B)), op('Disjunction', A, neg(A)))),
            (f'bicond:{o}:self', ((), op(o, A, A))),
            # the connective refuted outright: its negation as an (undesignated) conclusion of a valid argument
            (f'bicond:{o}:neg-prem:ant', ((neg(op(o, A, B)),), A)),
            (f'bicond:{o}:neg-prem:cons', ((neg(op(o, A, B)),), B)),
            (f'bicond:{o}:neg-prem:ncons', ((neg(op(o, A, B)),), neg(B))),
            (f'bicond:{o}:refute:1', ((A, neg(B)), neg(op(o, A, B)))),
            (f'bicond:{o}:refute:2', ((neg(A), B), neg(op(o, B, A)))),
            (f'bicond:{o}:lem', ((op(o, A, neg(A)),), B)),
        ]
    out.append(('dup-premises', ((A, A, op('MaterialConditional', A, B), A), B)))
    for o in ('Conditional', 'MaterialConditional', 'Biconditional', 'MaterialBiconditional'):
        out += [
            (f'glut-glut:{o}', ((op(o, A, B), A, neg(A), neg(B)), C)),
            (f'glut-glut:{o}:2', ((op(o, A, B), A, neg(A), B, neg(B)), C)),
            (f'gap-gap:{o}', ((), op('Disjunction', op(o, A, B), op('Disjunction', A, op('Disjunction', neg(A), op('Disjunction', B, neg(B))))))),
            (f'neg-cond-glut:{o}', ((neg(op(o, A, B)), B, neg(B)), neg(A))),
        ]
    def tower(k, t):
        for _ in range(k):
            t = neg(t)
        return t
    for k in (2, 3, 4):
        for li, lit in enumerate((A, neg(A))):
            out += [(f'neg-tower:{k}:{li}', ((lit, tower(k, A)), B)), (f'neg-tower:{k}:{li}:rev', ((tower(k, A), lit), B)),
                    (f'neg-tower:{k}:{li}:disj', ((lit, op('Disjunction', tower(k, A), B)), B))]
    out += [('explosion', ((A, neg(A)), B)), ('lem', ((B,), op('Disjunction', A, neg(A)))),
            ('disj-syll', ((op('Disjunction', A, B), neg(A)), B)), ('mp', ((A, op('MaterialConditional', A, B)), B)),
            ('mp:cond', ((A, op('Conditional', A, B)), B))]
    if S.quantified:
        Fa, Fb, Ga = syn.papp(F1, a), syn.papp(F1, b), syn.papp(G1, a)
        out += [
            ('const-order:1', ((neg(Fb), Ga, q('Existential', x, Fx)), A)),
            ('const-order:2', ((syn.papp(F1, c), neg(Fb), q('Existential', x, neg(Fx))), syn.papp(G1, b))),
            ('const-order:3', ((syn.papp(H2, c, a), q('Existential', x, q('Existential', y, neg(syn.papp(H2, x, y))))), B)),
            ('syllogism', ((q('Universal', x, op('MaterialConditional', Fx, Gx)), Fa), Ga)),
            ('nested-share', ((q('Universal', x, q('Existential', y, syn.papp(H2, x, y))),),
                              q('Existential', y, q('Universal', x, syn.papp(H2, x, y))))),
            ('nested-share:2', ((q('Existential', y, q('Universal', x, syn.papp(H2, x, y))),),
                                q('Universal', x, q('Existential', y, syn.papp(H2, x, y))))),
            ('exist-conj', ((q('Existential', x, Fx), q('Existential', x, Gx)), q('Existential', x, op('Conjunction', Fx, Gx)))),
            ('univ-disj', ((q('Universal', x, op('Disjunction', Fx, Gx)),), op('Disjunction', q('Universal', x, Fx), q('Universal', x, Gx)))),
            ('quant-dual', ((neg(q('Universal', x, Fx)),), q('Existential', x, neg(Fx)))),
            ('quant-dual:2', ((neg(q('Existential', x, Fx)),), q('Universal', x, neg(Fx)))),
            # quantifiers over a negated body: instances must keep (or stack) the negation; un-negating is only exact
            # where double negation is the identity (not G3, P3)
            ('quant-negbody:1', ((neg(q('Existential', x, neg(Fx))),), q('Universal', x, Fx))),
            ('quant-negbody:2', ((op('Disjunction', A, B),), op('Conjunction', op('Disjunction', neg(q('Universal', x, neg(Fx))), neg(Fa)), A))),
            ('quant-negbody:3', ((neg(q('Universal', x, neg(Fx))),), q('Existential', x, Fx))),
            ('quant-negbody:4', ((q('Existential', x, Fx),), neg(q('Universal', x, neg(Fx))))),
            ('quant-negbody:5', ((neg(q('Existential', x, neg(Fx))), Ga), op('Conjunction', Fa, Ga))),
            ('identity:subst', ((syn.papp(syn.IDENTITY, a, b), Fa), Fb)),
            ('identity:sym', ((syn.papp(syn.IDENTITY, a, b),), syn.papp(syn.IDENTITY, b, a))),
            ('identity:trans', ((syn.papp(syn.IDENTITY, a, b), syn.papp(syn.IDENTITY, b, c)), syn.papp(syn.IDENTITY, a, c))),
            ('identity:refl', ((), syn.papp(syn.IDENTITY, a, a))),
            ('identity:chain', ((syn.papp(syn.IDENTITY, a, b), syn.papp(syn.IDENTITY, b, c), Fa), syn.papp(F1, c))),
            ('identity:binary', ((syn.papp(syn.IDENTITY, a, b), syn.papp(H2, a, a)), syn.papp(H2, b, b))),
            ('existence', ((), syn.papp(syn.EXISTENCE, a))),
            ('identity:neg', ((neg(syn.papp(syn.IDENTITY, a, b)), Fa), neg(Fb))),
            # one identity with several applicable substitutions, only one of which matters
            ('identity:multi-subst', ((Fa, syn.papp(H2, a, a), syn.papp(G1, c), Ga, syn.papp(syn.IDENTITY, a, b)), syn.papp(G1, b))),
            ('identity:multi-subst:2', ((Fa, Ga, syn.papp(syn.IDENTITY, a, b), op('MaterialConditional', syn.papp(G1, b), A)), A)),
            ('identity:multi-subst:3', ((syn.papp(H2, a, c), Fa, Ga, syn.papp(syn.IDENTITY, b, a)), op('Conjunction', syn.papp(G1, b), Fb))),
            # two identities sharing a term in the same position: the flipped identity is only derivable by visiting the
            # pair from both sides
            ('identity:same-pos:1', ((syn.papp(syn.IDENTITY, a, b), syn.papp(syn.IDENTITY, a, c)), syn.papp(syn.IDENTITY, c, b))),
            ('identity:same-pos:2', ((syn.papp(syn.IDENTITY, a, b), syn.papp(syn.IDENTITY, a, c)), syn.papp(syn.IDENTITY, b, c))),
            ('identity:same-pos:3', ((syn.papp(syn.IDENTITY, a, b), syn.papp(syn.IDENTITY, c, b)), syn.papp(syn.IDENTITY, a, c))),
            ('identity:same-pos:4', ((syn.papp(syn.IDENTITY, a, b), syn.papp(syn.IDENTITY, c, b)), syn.papp(syn.IDENTITY, c, a))),
            ('identity:same-pos:5', ((syn.papp(syn.IDENTITY, b, a), syn.papp(syn.IDENTITY, a, c), Fb), syn.papp(F1, c))),
            ('identity:symmetry-binary', ((syn.papp(syn.IDENTITY, a, b), syn.papp(H2, a, b)), syn.papp(H2, b, a))),
        ]
    if S.modal:
        P, N = 'Possibility', 'Necessity'
        out += [
            ('two-nec', ((op(N, A), op(N, op(N, B)), op(P, C)), op(P, op('Conjunction', A, C)))),
            ('two-nec:2', ((op(P, op('Assertion', A)) if S.base_name in ('B3E', 'GO') else op(P, A), op(N, op(N, A))), A)),
            ('two-nec:3', ((op(N, op('MaterialConditional', A, B)), op(N, op(N, A)), op(P, op(P, C))), op(P, op(P, B)))),
            ('poss-under-nec', ((op(N, op(P, A)), op(P, B)), op(P, op(P, A)))),
            ('serial-chain', ((op(P, op(N, A)),), op(N, neg(C)))),
            ('serial-chain:2', ((op(P, A), op(P, B), op(N, op(N, C))), op(P, op(P, C)))),
            ('serial:D-axiom', ((op(N, A),), op(P, A))),
            ('T-axiom', ((op(N, A),), A)),
            ('4-axiom', ((op(N, A),), op(N, op(N, A)))),
            ('B-axiom', ((A,), op(N, op(P, A)))),
            ('5-axiom', ((op(P, A),), op(N, op(P, A)))),
            ('K-axiom', ((op(N, op('MaterialConditional', A, B)), op(N, A)), op(N, B))),
            ('dual', ((neg(op(N, A)),), op(P, neg(A)))),
            ('dual:2', ((neg(op(P, A)),), op(N, neg(A)))),
            ('nec-lem', ((), op(N, op('Disjunction', A, neg(A))))),
            ('refl-trans', ((op(N, op(N, A)), op(P, op(P, neg(A)))), B)),
            # sibling leaf worlds that lack a successor at the same moment, with obligations that contradict each other:
            # satisfiable only if each gets a successor of its own
            ('sibling-boxes', ((op(P, op(N, A)), op(P, op(N, neg(A)))), B)),
            ('sibling-boxes:conj', ((op('Conjunction', op(P, op(N, A)), op(P, op(N, neg(A)))),), B)),
            ('sibling-boxes:3', ((op(P, op('Conjunction', op(N, A), C)), op(P, op('Conjunction', op(N, neg(A)), B)), op(P, op(N, op('Conjunction', A, B)))), op(N, C))),
            ('sibling-boxes:deep', ((op(N, op(P, op(N, A))), op(P, op(P, op(N, neg(A))))), B)),
            # a fork while a boxed world has no successor yet; one sibling then gives it one (copies must not share it)
            ('fork-under-box', ((op(P, op('Conjunction', op(N, A), op('Disjunction', B, op(P, C)))),), op(N, B))),
            ('fork-under-box:2', ((op(P, op('Conjunction', op(N, neg(C)), op('Disjunction', B, op(P, C)))), op(P, B)), neg(A))),
            ('fork-under-box:3', ((op(P, op(N, A)), op('Disjunction', op(P, B), op(P, op(P, neg(A))))), C)),
            # ... and where a sibling owns a world of the same number holding the opposite: a leaked access pair closes it
            ('fork-under-box:flip:1', ((op(P, op('Conjunction', op(N, neg(C)), op('Disjunction', B, op(P, A)))), op(P, C), op(N, op(N, neg(A)))), syn.atom(3))),
            ('fork-under-box:flip:2', ((op(N, op(N, neg(A))), op(P, op('Conjunction', op(N, neg(C)), op('Disjunction', B, op(P, A)))), op(P, C)), syn.atom(3))),
            ('fork-under-box:flip:3', ((op(P, C), op(P, op('Conjunction', op(N, neg(C)), op('Disjunction', B, op(P, A)))), op(N, op(N, neg(A)))), syn.atom(3))),
            ('several-leafworlds', ((op(P, A), op(P, B), op(P, C), op(N, op('Disjunction', A, op('Disjunction', B, C)))), op(N, A))),
        ]
        # truth-functional connectives decomposed at world 0 while other worlds hold clashing literals (a rule that
        # drops the world of its node lets them meet)
        for o in ('Biconditional', 'MaterialBiconditional', 'Conditional', 'MaterialConditional', 'Conjunction', 'Disjunction'):
            out += [
                (f'modal-ctx:{o}:neg', ((op(P, op('Conjunction', A, B)), op(P, neg(A))), neg(op(o, A, B)))),
                (f'modal-ctx:{o}:pos', ((op(P, op('Conjunction', A, neg(B))), op(P, op('Conjunction', neg(A), B))), op(o, A, B))),
                (f'modal-ctx:{o}:prem', ((op(o, A, B), op(P, neg(A)), op(P, neg(B))), op('Disjunction', A, B))),
            ]
        # proofs that run up to the projected world limit: a necessarily-possibly multiplier, k extra possibility
        # premises, and an obligation j levels deep
        lem = op('Disjunction', C, neg(C))
        for k in range(3):
            for j in (1, 2, 3):
                conc = op(P, lem)
                for _ in range(j):
                    conc = op(N, conc)
                extra = tuple(op(P, syn.atom(1 + i)) for i in range(k))
                out.append((f'world-limit:{k}:{j}', ((op(N, op(P, A)),) + extra, conc)))
        if S.quantified:
            Fa, Fb = syn.papp(F1, a), syn.papp(F1, b)
            idab = syn.papp(syn.IDENTITY, a, b)
            out += [
                ('identity-modal:poss', ((idab, op(P, Fa)), Fb)),
                ('identity-modal:poss2', ((idab, op(P, Fa)), op(P, Fb))),
                ('identity-modal:nec', ((idab, op(N, Fa)), op(N, Fb))),
                ('identity-modal:nec-id', ((idab,), op(N, idab))),
                ('identity-modal:cross', ((op(P, idab), Fa), Fb)),
                ('barcan', ((q('Universal', x, op(N, Fx)),), op(N, q('Universal', x, Fx)))),
                ('barcan:conv', ((op(N, q('Universal', x, Fx)),), q('Universal', x, op(N, Fx)))),
                ('modal-exist', ((op(P, q('Existential', x, Fx)),), q('Existential', x, op(P, Fx)))),
                ('modal-exist:2', ((q('Existential', x, op(P, Fx)), op(N, q('Universal', x, op('MaterialConditional', Fx, Gx)))),
                                   op(P, q('Existential', x, Gx)))),
            ]
    for label, arg in out:
        yield label, arg


# ------------------------------------------------------------------ rule-directed

def rule_shapes(S, desig):
    """Node shapes (sentence-builder, negated, designation) for every operator /
    quantifier the logic interprets."""
    ds = (True, False) if desig else (None,)
    for oname, arity in syn.OPERATORS:
        if oname in syn.MODAL and not S.modal:
            continue
        for negated in (False, True):
            for d in ds:
                yield ('O', oname, arity, negated, d)
    if S.quantified:
        for qn in syn.QUANTIFIERS:
            for negated in (False, True):
                for d in ds:
                    yield ('Q', qn, 1, negated, d)


def rule_directed(rng, S, desig, fragment, depth=1):
    """For each shape: an argument whose trunk carries a node of that shape
    around random sub-sentences. Yields (label, argument)."""
    g = SentGen(rng, fragment)
    for kind, name, arity, negated, d in rule_shapes(S, desig):
        if kind == 'O':
            s = syn.op(name, *[g.sentence(rng.randint(0, depth)) for _ in range(arity)])
        else:
            v = VARS[0]
            body = None
            for _ in range(8):
                body = g.sentence(rng.randint(0, depth), (v,))
                if v in syn.free_vars(body):
                    break
            else:
                body = syn.papp(F1, v)
            s = syn.quant(name, v, body)
        if negated:
            s = syn.neg(s)
        extra = tuple(g.sentence(rng.randint(0, depth)) for _ in range(rng.randint(0, 2)))
        other = g.sentence(rng.randint(0, depth))
        if desig:
            arg = ((s,) + extra, other) if d else (extra, s)
        else:
            # unmarked systems: trunk = premises + negated conclusion
            if negated and rng.random() < 0.5:
                arg = (extra, s[2][0])
            else:
                arg = ((s,) + extra, other)
        yield f'rule:{name}{"Negated" if negated else ""}{ {True: "Designated", False: "Undesignated", None: ""}[d] }', arg


# ------------------------------------------------------------------ exhaustive propositional

def exh_sentences(max_conn, atoms=(ATOMS[0], ATOMS[1]), ops=None):
    """All sentences with at most ``max_conn`` truth-functional connectives."""
    ops = ops or [n for n in syn.TRUTH_FUNCTIONAL]
    levels = {0: list(atoms)}
    for n in range(1, max_conn + 1):
        cur = []
        for o in ops:
            if syn.ARITY[o] == 1:
                cur += [syn.op(o, x) for x in levels[n - 1]]
            else:
                for i in range(n):
                    j = n - 1 - i
                    cur += [syn.op(o, x, y) for x in levels[i] for y in levels[j]]
        levels[n] = cur
    return [s for n in range(max_conn + 1) for s in levels[n]]


def arg_key(arg):
    return (tuple(arg[0]), arg[1])


def show_arg(arg):
    return ', '.join(syn.show(p) for p in arg[0]) + ' |- ' + syn.show(arg[1])


def arg_size(arg):
    return sum(syn.size(p) for p in arg[0]) + syn.size(arg[1])


def arg_to_json(arg):
    return dict(premises=[_tj(p) for p in arg[0]], conclusion=_tj(arg[1]), show=show_arg(arg))


def arg_from_json(d):
    return tuple(_fj(p) for p in d['premises']), _fj(d['conclusion'])


def _tj(t):
    return [_tj(x) if isinstance(x, tuple) else x for x in t]


def _fj(t):
    return tuple(_fj(x) if isinstance(x, list) else x for x in t)
