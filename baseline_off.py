#!/usr/bin/env python3
"""Run the repository's pinned test suite with the verification guard OFF and
compare with /root/.vp/BASELINE.json: every test in ``stable_pass`` must pass.
Exit 0 iff so. Usage: baseline_off.py [--junit FILE] [--repo DIR]"""
import json, os, subprocess, sys, tempfile, xml.etree.ElementTree as ET

def main():
    repo = '/repo'
    args = sys.argv[1:]
    if '--repo' in args:
        repo = args[args.index('--repo') + 1]
    base = json.load(open('/root/.vp/BASELINE.json'))
    env = {k: v for k, v in os.environ.items() if not k.startswith('PYTABLEAUX_VERIF')}
    env['PYTHONDONTWRITEBYTECODE'] = '1'
    with tempfile.TemporaryDirectory(dir=os.path.dirname(os.path.abspath(__file__))) as td:
        junit = os.path.join(td, 'junit.xml')
        cmd = ['/venv/bin/python', '-m', 'pytest', '-q', '-p', 'no:cacheprovider',
               '--timeout=900', '--continue-on-collection-errors', f'--junitxml={junit}']
        p = subprocess.run(cmd, cwd=repo, env=env, stdout=subprocess.PIPE, stderr=subprocess.STDOUT, text=True)
        print(p.stdout[-1500:])
        passed = set()
        for tc in ET.parse(junit).getroot().iter('testcase'):
            if not any(ch.tag in ('failure', 'error', 'skipped') for ch in tc):
                passed.add(f"{tc.get('classname')}::{tc.get('name')}")
    missing = [t for t in base['stable_pass'] if t not in passed]
    print(f'baseline stable_pass={len(base["stable_pass"])} passed_now={len(passed)} missing={len(missing)}')
    for t in missing[:40]:
        print('NOT PASSING:', t)
    return 1 if missing else 0

if __name__ == '__main__':
    sys.exit(main())
