#!/bin/bash
# Offline dependency install into ./.deps (git-ignored). Idempotent.
set -e
cd "$(dirname "$0")"
export PIP_NO_INDEX=1 PIP_DISABLE_PIP_VERSION_CHECK=1
if [ ! -f .deps/.ok ]; then
  mkdir -p .deps
  (
    flock 9
    if [ ! -f .deps/.ok ]; then
      /venv/bin/python -m pip install -q --no-index --find-links /opt/veriftools/wheels \
          --target .deps icontract deal >/dev/null 2>.deps/pip.err || { cat .deps/pip.err >&2; exit 1; }
      touch .deps/.ok
    fi
  ) 9>.deps/.lock
fi
PYTHONPATH=.deps /venv/bin/python -c "import icontract, deal" 
echo "setup ok"
